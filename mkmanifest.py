#!/usr/bin/env python3
"""Regenerates MANIFEST.json from the table below (kept valid at all times)."""
import json, os
V = os.path.dirname(os.path.abspath(__file__))
CHECKS = {
 "C17": dict(
  text="Randomised search (rapid) over generated Go packages annotated with the documented grammar (swagger:meta, swagger:model with validations and items.* validations, swagger:response with headers and bodies, swagger:route with its sections or swagger:operation with a YAML body, swagger:parameters for every location with validations and collection formats, optional input spec to merge into); in 30% of the cases arbitrary comment lines (annotation fragments, section headers, YAML punctuation, control and non-ASCII characters) are inserted at random positions. codescan.Run in process. Oracle, grammar mode: no panic, no diagnostic, validate.Spec passes, and every declared fact (one per annotation line) is at its place in the document with the declared value. Noise mode: no panic. Three defects repaired (multiple of ignored; two scanner crashes).",
  note="The program generator only uses annotation forms shown in docs/reference/annotations and the fixtures (alternative keyword spellings drawn at random); in noise mode only totality is asserted because the injected text may legitimately change the document.",
  tech="property-based testing (rapid): program generation with facts known by construction + robustness fuzzing of comment text"),
 "C16": dict(
  text="Randomised search (rapid) over generated Go packages of annotated model types (type grammar: every basic kind, time.Time, interface{}, []byte, pointers, slices, arrays, string-keyed maps, models by value / pointer / slice / map, anonymous structs, named types and aliases, embedded structs, json tags rename / omitempty / '-' / ',string', unexported and ignored fields). The package is scanned in-process by codescan.Run and compiled into a reflection harness. Oracle 1: json.Marshal of the zero, the fully and the half populated value of every model validates against the scanned definition (double oracle: self-written validator and go-openapi/validate must both reject). Oracle 2: the required-only and the all-properties document built from the scanned definition decodes into the type. Two defects repaired (fix: commits), four root causes listed as known findings.",
  note="null (nil pointer / slice / map / interface) is left out of the comparison because Swagger 2.0 cannot express it; canonical documents use small integers, so overflow of narrow integer kinds is not probed; the scanner runs with gotypesalias=0 like the binary built from the tree (go 1.21 module).",
  tech="property-based testing (rapid): program generation + round-trip / differential oracle between encoding/json and the scanned schema"),
 "C07": dict(
  text="Randomised search (rapid) over batches of 2-4 generation jobs (server / client / model / cli / markdown with option subsets) on 2-3 distinct specs plus a random subset of {flatten, flatten full as YAML, expand, mixin, diff, diff -f json, generate spec over generated models}. Every job and command runs 3 times in new processes (fresh hash seeds) with the binary built from the tree; outputs are compared byte by byte. In 60% of the cases all jobs also run at once in one process through the exported command structs (helper program built with -race): the race detector must stay silent, no job may fail that succeeds alone, and each target tree must equal the one produced alone. Four defects found and repaired (fix: commits); one listed known finding (expand on self-referencing definitions).",
  note="All targets of a run live in one module and every process works from the module root (import resolution of generated code depends on both, they are inputs); three repetitions bound the detection probability of a rarely-showing order dependence per case; concurrency is explored by the Go scheduler, not by a controlled schedule.",
  tech="property-based testing (rapid): repeat-run differential over generated inputs + concurrent in-process batch under the race detector"),
 "C11": dict(
  text="Randomised search (rapid) over histories of 3-10 events on one target directory, executed with the swagger binary built from the tree: generate {server, client, model, support, operation} with option subsets (tag layout, --regenerate-configureapi, --exclude-*, --skip-*, flatten mode, strict responders), the spec evolving between runs (operations, parameters, responses, properties dropped or added; every evolution followed by a regeneration), the user appending to configure_<app>.go and adding / editing own files inside generated package directories. Oracle after every run: user files keep their bytes, an existing configure file is untouched unless --regenerate-configureapi, and every file the same command writes into an empty directory is present with identical bytes. One listed known finding (facade imports resolved against stale packages).",
  note="A difference only counts when none of four fresh generations reproduces the bytes found in the target (generator output that is not repeatable is C07's subject); a run that exits non-zero is only required to leave user files alone.",
  tech="property-based testing (rapid): model-based testing of generated-file state over event histories, differential against fresh generation"),
 "C09": dict(
  text="Randomised search (rapid) over pairs (spec with neutral text in every free-text position, same spec with hostile text in all sites of one position kind plus a sample of the others). Hostile text = a Go declaration / field / statement named Injected<site> behind a comment or literal terminator (line breaks of every kind incl. mixed CRLF/LF, '*/', back-quote, double quote, struct-tag break, trailing backslash, template / printf syntax, control characters). Both specs are generated (server+client, cli, model; optional --struct-tags=description,example) with the binary built from the tree. Oracle: the hostile generation fails with an error, or both trees have the same files and each file the same go/parser AST once comments are dropped and string/char literal values erased; in ~15% of cases both trees are compiled and the hostile one must build when the neutral one does. Four leaks found and repaired (fix: commits), replayed from the corpus.",
  note="Names (definitions, properties, enum values...) are not free text and stay neutral; URL / e-mail fields constrained by the Swagger schema stay neutral; a leak whose payload does not parse makes the generator fail, which the property allows, so only parseable leaks are observable.",
  tech="property-based testing (rapid): metamorphic relation (neutral vs hostile text) over generated programs, compared as ASTs"),
 "C08": dict(
  text="Randomised search (rapid) over specs with planted groups of mangling-equivalent names (definitions, operation ids, id-less paths, synthesised vs explicit ids, tags, reserved package names, parameter names, inline-type names) next to plain control operations; server+client are generated with the binary built from the tree and compiled with the reflection harness. Oracle: generator error, or one model type per definition, one handler field and client method per operation, and every method+path reaches the handler carrying its own marker. Seven listed known findings (silent overwrites and merged Go names).",
  note="Operation identity is observed behaviourally (unique default of a marker parameter), never by re-implementing the name mangling.",
  tech="property-based testing (rapid): program generation over colliding names + structural and behavioural injectivity oracle"),
 "C10": dict(
  text="Randomised search (rapid) over specs with hostile free text and nested anonymous schemas, written as JSON or fully quoted YAML, x {minimal, full flatten, expand}: the generated server is compiled and asked (through the reflection harness) for restapi.SwaggerJSON, restapi.FlatSwaggerJSON and GET /swagger.json; oracle: JSON equality with the input tree for the original and served documents, and equality after local $ref expansion (own expander) for the flattened document. Three root causes of genuine differences are listed known findings.",
  note="NUL and BOM in free text make generation fail (allowed by C09) and are not generated here; names of definitions lifted by the flattener are not compared; x-go-* additions are ignored.",
  tech="property-based testing (rapid): program generation + round-trip (input spec vs embedded/served spec) with a normalising comparison"),
 "C04": dict(
  text="Randomised search (rapid) over server+client programs generated from one spec and compiled into one program (the generated client talks to the generated server through an in-process RoundTripper; handlers, client methods and parameter structs are driven by reflection): typed parameter values given to the client must equal the Params seen by the server handler; for each response plan (declared 2xx, declared other code, default, undeclared code, with payload and scalar/array headers) the client must return the typed result, typed error or generic API error carrying equal content. Three listed known findings.",
  note="The handler answers with a raw responder, so the generated server-side WriteResponse is not exercised; values are spec-conforming and representable in the collectionFormat; file parameters are not generated.",
  tech="property-based testing (rapid): program generation + round-trip oracle across generated client and server"),
 "C06": dict(
  text="Randomised search (rapid) over server programs with 1-4 security definitions, global and per-operation requirements (absent, [], AND/OR lists with scope subsets, optional authentication) x credential sets (absent / valid / invalid per transport, random granted scopes); generated with the swagger binary built from the tree, compiled with a reflection harness installing convention-based authenticators, driven in-process. Oracle: reference evaluator of the effective requirement (handler reached, 401/403, principal identity, no authenticator on open operations).",
  note="Credentials are modelled per transport (all basic schemes share the Authorization header, all oauth2 schemes the bearer token); optional authentication with a refused credential is unspecified.",
  tech="property-based testing (rapid): program generation + model-based testing of generated security enforcement against a reference evaluator"),
 "C03": dict(
  text="Randomised search (rapid) over server programs: specs with parameters of every location, type, collectionFormat and flag combination (one catalogue-drawn focus parameter per operation) are generated with the swagger binary built from the tree, compiled together with a reflection harness that installs recording handlers, and driven in-process with valid requests plus every single deviation of every parameter (dropped, emptied, boundary-mutated, malformed, repeated, other header case, body mutated/malformed/absent/null, wrong content type). Oracle: three-valued reference binder written from Swagger 2.0 semantics, cross-checked with go-openapi/validate on the parsed values. Listed known findings (boolean converter, byte bodies, lenient date-time, missing default consumer) are excluded by signature.",
  note="Names are plain (identifier hostility is C01/C08's subject); cases the Swagger 2.0 text leaves open are 'unspecified' and assert nothing (listed in the evidence assumptions).",
  tech="property-based testing (rapid): program generation + model-based testing of generated request binding against a reference binder"),
 "C18": dict(
  text="Randomised search (rapid) over model specs: spec -> generated models (binary built from the tree) -> codescan.Run over the generated package -> normalised, position-by-position comparison of every definition (names, types, formats, required, $ref / allOf structure, additionalProperties, readOnly, discriminator, every validation keyword). Thirteen root-cause classes of genuine losses are listed known findings; one defect was repaired.",
  note="References to anonymous types lifted by the generator are followed (naming of lifted types is not part of the property); defaults, examples, text and x-* extensions are ignored as the property allows.",
  tech="property-based testing (rapid): round trip through both halves of the toolkit with a normalising structural comparison"),
 "C05": dict(
  text="Randomised search (rapid) over model programs (schema fragment of C02 plus tuples, discriminated base types reached through properties and arrays, allOf compositions with container-typed members, property names that are not Go identifiers) x documents valid for the schema, biased to zero values and empty containers; oracle: schema-directed comparison of Marshal(Unmarshal(doc)) with doc under the three documented tolerances, and idempotence of the second pass. Eight root-cause classes of genuine losses/additions are listed known findings.",
  note="Validity of documents is decided by the self-written schema validator; documents the generated model rejects belong to C02; date-time and duration values are compared by denoted value.",
  tech="property-based testing (rapid): program generation + round-trip oracle (decode/encode) with idempotence"),
 "C02": dict(
  text="Randomised search (rapid) over model programs: specs of 4-9 definitions from the documented schema fragment are generated with the swagger binary built from the tree and compiled; every definition receives valid documents plus every single-position boundary mutation of them; oracle: generated decode+Validate verdict equals the go-openapi/validate schema validator's verdict (cross-checked by a self-written validator) modulo the documented tolerances. Six root-cause classes of genuine divergences are listed known findings; one was repaired.",
  note="Trusts go-openapi/validate as the reference; tolerances T1-T3 are encoded as stated in the evidence assumptions; programs that do not build are C01's subject.",
  tech="property-based testing (rapid): program generation + differential testing of generated validators against a reference validator"),
 "C12": dict(
  text="Randomised search (rapid) over generated valid specs: identity under four re-serialisations (same, YAML, shuffled keys, shuffled parameter/enum lists) and totality over edited/unrelated pairs; any panic, error, non-empty self-diff, non-zero exit or 60 s overrun is a violation. Sampling, not exhaustive; thorough adds a native coverage-guided fuzz campaign on the same property.",
  note="Trusts go-openapi/validate.Spec as the definition of a valid spec and go-openapi/loads for loading; process-fatal crashes are caught by the driver's crash guard.",
  tech="property-based testing (rapid): identity / metamorphic relation and totality oracle over generated specs and edit scripts"),
 "C14": dict(
  text="Randomised search (rapid) over pairs (A, A+edit script): the mirror relation between diff(A,B) and diff(B,A) on multisets of (location, change class, direction). Five listed known findings (description change mislabelled; pinned by a golden) are excluded by signature and replayed from the corpus.",
  note="Mirror table and location reduction are stated in the evidence assumptions; pairs on which diff crashes belong to C12.",
  tech="property-based testing (rapid): metamorphic (argument-swap) relation over generated spec pairs"),
 "C13": dict(
  text="Randomised search (rapid) over (base spec, one elementary narrowing edit from a 35-kind catalogue at every parameter / items / body-schema / response position, witness request). A request edit only counts when a concrete witness request is accepted before and rejected after by two independent validators (self-written Swagger 2.0 binder + go-openapi/validate); oracle: diff reports >=1 Breaking difference and the command returns an error. Eight root-cause classes of misses are listed known findings.",
  note="The edit catalogue is finite; a breaking edit outside it is not searched. Witness certification trusts go-openapi/validate's parameter and schema validators and go-openapi/analysis for routing/consumes.",
  tech="property-based testing (rapid): metamorphic edit + double-oracle witness certification"),
 "C15": dict(
  text="Randomised search (rapid) over spec pairs x subsets of the reported differences fed back verbatim as ignore file; exit status <=> non-ignored Breaking entry for txt, -b and json; text/JSON/-b reports compared as multisets; JSON round trip of every difference and exhaustively of every change code.",
  note="DiffCommand.Execute is driven in-process (returned error = non-zero exit). Known finding: -f json always exits 0 (pinned by TestDiffProcessIgnores).",
  tech="property-based testing (rapid): round-trip (report -> ignore file -> report) and differential comparison of output formats"),
 "C19": dict(
  text="Randomised search (rapid) over spec trees carrying YAML-ambiguous and hostile scalars (strings, numbers, keys) x spec-emitting command (expand, flatten x3, mixin, generate spec with input spec, init spec) x {JSON, YAML} input x {json, yaml} output x compact/pretty; round-trip / differential oracle on the reloaded documents. Root-cause classes of genuine YAML-dependency defects are listed known findings.",
  note="Commands are called in-process through their exported Execute/MixinFiles; documents are reloaded with go-swagger's own loader (loads.Spec) and cross-checked with plain yaml.v3; numbers compare by float64 value. Runs whose command output is not repeatable are skipped (C07's subject).",
  tech="property-based testing (rapid): round-trip and differential (format x format) oracle over generated specs with ambiguous scalars"),
}
REF = {k: f"DESIGN.md §2 {k}" for k in CHECKS}
PENDING = "check under construction in this session (not yet registered); DESIGN.md describes the planned generated-input check"

def main():
    props = [json.loads(l)["id"] for l in open(os.path.join(V, "properties.jsonl"))]
    m = {
     "version": 1,
     "setup_cmd": "./vcheck warm",
     "hooks": {"guard": "verif", "enable": "no source hooks are needed: every observation point is reachable through the CLI, exported library API or generated code; checks build /repo's working tree through a go.mod replace directive", "baseline_off_cmd": "cd /repo && GOPROXY=off GOSUMDB=off GOTOOLCHAIN=local go test -vet=off -count=1 -timeout 25m ./...", "source_commits": [], "add_only": True},
     "engines": [{"name": "vcheck", "path": "/verif/vcheck", "serves_properties": sorted(CHECKS), "kind_free_text": "python driver: builds the property's rapid test binary (pgregory.net/rapid v1.3.0) from /repo's working tree, replays the regression corpus, runs sharded rapid searches on all cores, merges shard statistics into the evidence file, matches violations against known_findings.json"}],
     "checks": [], "not_applicable": [],
     "notes": "See DESIGN.md. Known findings and fixed defects: known_findings.json. Seeded breaking changes used to test the checks: seeded/.",
    }
    for pid in props:
        if pid in CHECKS:
            c = CHECKS[pid]
            m["checks"].append({"property_id": pid, "quick_cmd": f"./vcheck run {pid} --tier quick", "thorough_cmd": f"./vcheck run {pid} --tier thorough",
              "evidence_file": f"/verif/evidence/{pid}.json", "replay_cmd_template": "./vcheck replay {path}", "engine": "vcheck",
              "level_claimed": {"category": "exploration", "text": c["text"], "design_ref": REF[pid]}, "level_note": c["note"], "technique": c["tech"]})
        else:
            m["not_applicable"].append({"property_id": pid, "reason": PENDING})
    json.dump(m, open(os.path.join(V, "MANIFEST.json"), "w"), indent=1)
    print("checks:", [c["property_id"] for c in m["checks"]])
main()
