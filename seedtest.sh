#!/bin/bash
# usage: seedtest.sh <seed-dir> <Cxx> [tier]   -- apply a seeded patch to /repo, run the check, undo
set -u
SEED=$1; PID=$2; TIER=${3:-quick}
cd /repo || exit 2
if [ -n "$(git status --porcelain)" ]; then echo "/repo dirty"; exit 2; fi
git apply "$SEED/patch.diff" || { echo "patch does not apply"; exit 2; }
cd /verif && ./vcheck run $PID --tier $TIER 2>/dev/null | grep -v "KNOWN-FINDING" | cut -c1-300 | head -${LINES_MAX:-8}
rc=${PIPESTATUS[0]}
git -C /repo checkout -- . 
echo "exit=$rc"
