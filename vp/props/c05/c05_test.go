package c05

import (
	"encoding/json"
	"fmt"
	"sort"
	"strings"
	"testing"
	"time"
	"unicode"

	"github.com/go-openapi/strfmt"
	"pgregory.net/rapid"

	"verif/internal/pbt"
	"verif/internal/refmodel"
	"verif/internal/specgen"
	"verif/internal/swg"
	"verif/internal/work"
)

type J = specgen.J
type A = specgen.A

type Inst struct {
	Def   string          `json:"def"`
	Doc   json.RawMessage `json:"doc"`
	Class string          `json:"class"`
}

type Case struct {
	Spec  json.RawMessage `json:"spec"`
	Insts []Inst          `json:"insts"`
}

// noCollide keeps property names of one object distinct after Go-name mangling
// (collisions are property C08's subject).
func propName(t *rapid.T, label string) string {
	if rapid.IntRange(0, 7).Draw(t, label+"_nasty") == 0 {
		return specgen.NastyName(t, label)
	}
	return specgen.PlainName(t, label)
}

func gen(t *rapid.T) Case {
	doc := specgen.ModelSpec(t, specgen.ModelOpts{Name: propName, Tuples: true, Polymorphic: true, Composite: true})
	dedupeMangled(doc)
	c := Case{Spec: specgen.JSONBytes(doc)}
	defs, _ := doc["definitions"].(J)
	names := make([]string, 0, len(defs))
	for n := range defs {
		names = append(names, n)
	}
	sort.Strings(names)
	per := pbt.LoadEnv("C05").N(10, 30)
	for _, n := range names {
		for i := 0; i < per; i++ {
			l := fmt.Sprintf("%s_i%d", n, i)
			v, ok := specgen.Valid(t, l, doc, J{"$ref": "#/definitions/" + n}, 0)
			if !ok {
				continue
			}
			class := "valid"
			// bias towards the shapes the statement names: empty containers, zero values
			switch rapid.IntRange(0, 5).Draw(t, l+"_shape") {
			case 0:
				v = withZeros(t, l, doc, defs[n].(J), v)
				class = "zeros"
			case 1, 2:
				v = withEmpties(v)
				class = "empty-containers"
			}
			c.Insts = append(c.Insts, Inst{Def: n, Doc: specgen.JSONBytes(v), Class: class})
		}
	}
	return c
}

// mangleKey approximates Go-name mangling well enough to keep generated names
// apart: letters and digits only, case-insensitive.
func mangleKey(s string) string {
	var sb strings.Builder
	for _, r := range strings.ToLower(s) {
		if (r >= 'a' && r <= 'z') || (r >= '0' && r <= '9') || r > 127 {
			sb.WriteRune(r)
		}
	}
	return sb.String()
}

// dedupeMangled renames properties of one object whose names collide after mangling.
func dedupeMangled(v any) {
	switch x := v.(type) {
	case map[string]any:
		if props, ok := x["properties"].(map[string]any); ok {
			seen := map[string]bool{}
			keys := make([]string, 0, len(props))
			for k := range props {
				keys = append(keys, k)
			}
			sort.Strings(keys)
			for _, k := range keys {
				mk := mangleKey(k)
				if mk == "" || seen[mk] {
					nk := fmt.Sprintf("%s u%d", k, len(seen))
					props[nk] = props[k]
					delete(props, k)
					if req, ok := x["required"].([]any); ok {
						for i, r := range req {
							if r == k {
								req[i] = nk
							}
						}
					}
					mk = mangleKey(nk)
				}
				seen[mk] = true
			}
		}
		for _, e := range x {
			dedupeMangled(e)
		}
	case []any:
		for _, e := range x {
			dedupeMangled(e)
		}
	}
}

// withZeros sets some primitive values to the zero of their type where the schema allows it.
func withZeros(t *rapid.T, label string, root J, s J, v any) any {
	muts := specgen.AllMutations(root, s, v)
	var zs []specgen.Mutated
	for _, m := range muts {
		if strings.HasSuffix(m.Class, "zero") || strings.Contains(m.Class, "add-zero-") {
			zs = append(zs, m)
		}
	}
	if len(zs) == 0 {
		return v
	}
	return zs[rapid.IntRange(0, len(zs)-1).Draw(t, label+"_z")].Doc
}

// withEmpties empties every array, and every object that only holds additional
// ("extra*") members, at any depth: empty containers in required and optional places.
func withEmpties(v any) any {
	switch x := v.(type) {
	case map[string]any:
		onlyExtra := len(x) > 0
		for k := range x {
			if !strings.HasPrefix(k, "extra") {
				onlyExtra = false
			}
		}
		if onlyExtra {
			return J{}
		}
		for k, e := range x {
			x[k] = withEmpties(e)
		}
		return x
	case []any:
		return A{}
	}
	return v
}

func isZeroish(v any) bool {
	switch x := v.(type) {
	case nil:
		return true
	case string:
		return x == ""
	case float64:
		return x == 0
	case bool:
		return !x
	case []any:
		return len(x) == 0
	case map[string]any:
		return len(x) == 0
	}
	return false
}

type differ struct {
	root  J
	diffs []string // "<kind>|<detail>: message"
}

func (d *differ) add(kind, detail, format string, args ...any) {
	d.diffs = append(d.diffs, kind+"|"+detail+": "+fmt.Sprintf(format, args...))
}

func typeClass(s J) string {
	if f, ok := s["format"].(string); ok && f != "" {
		return "format:" + f
	}
	if t, ok := s["type"].(string); ok {
		return t
	}
	if s["allOf"] != nil {
		return "allOf"
	}
	return "untyped"
}

func declared(root J, s J) (props map[string]J, req map[string]bool, open bool, addl J) {
	props = map[string]J{}
	req = map[string]bool{}
	var walk func(s J, depth int)
	walk = func(s J, depth int) {
		if depth > 20 {
			return
		}
		s = refmodel.Resolve(root, s)
		if p, ok := s["properties"].(J); ok {
			for k, v := range p {
				if vj, ok := v.(J); ok {
					if _, dup := props[k]; !dup {
						props[k] = vj
					}
				}
			}
		}
		for _, r := range asList(s["required"]) {
			if rs, ok := r.(string); ok {
				req[rs] = true
			}
		}
		switch ap := s["additionalProperties"].(type) {
		case J:
			open, addl = true, ap
		case bool:
			if ap {
				open = true
			}
		}
		for _, m := range asList(s["allOf"]) {
			if mj, ok := m.(J); ok {
				walk(mj, depth+1)
			}
		}
	}
	walk(s, 0)
	return
}

func asList(v any) A { l, _ := v.(A); return l }

func (d *differ) compare(s J, in, out any, path string, depth int, region string) {
	if depth > 30 {
		return
	}
	s = refmodel.Resolve(d.root, s)
	if disc, ok := s["discriminator"].(string); ok {
		// a position typed by the base holds a subtype: compare along the subtype's schema
		if obj, ok := in.(map[string]any); ok {
			if sub, ok := obj[disc].(string); ok {
				defs, _ := d.root["definitions"].(J)
				if ss, ok := defs[sub].(J); ok {
					s = ss
				}
			}
		}
	}
	if depth > 0 && s["allOf"] != nil {
		region = "region:property-with-allOf"
	}
	switch x := in.(type) {
	case map[string]any:
		y, ok := out.(map[string]any)
		if !ok {
			d.add("changed", "object-became-"+jsonKind(out), "%s: object re-encoded as %s", path, short(out))
			return
		}
		props, req, open, addl := declared(d.root, s)
		keys := sortedKeys(x)
		for _, k := range keys {
			ps, isDeclared := props[k]
			ov, present := y[k]
			if !isDeclared && !open {
				continue // (iii) undeclared property where additionalProperties is absent/false: may be dropped
			}
			if !present {
				switch {
				case isDeclared && req[k]:
					d.add("lost", lostDetail(region, "required", k), "%s.%s: required property missing from the re-encoded document (input value %s)", path, k, short(x[k]))
				case isDeclared && isZeroish(x[k]):
					// (i) optional property holding the zero value of its type may be omitted
				case isDeclared:
					d.add("lost", lostDetail(region, "optional", k), "%s.%s: property lost (input value %s)", path, k, short(x[k]))
				default:
					d.add("lost", lostDetail(region, "additional", k), "%s.%s: additional property lost (input value %s)", path, k, short(x[k]))
				}
				continue
			}
			switch {
			case isDeclared:
				d.compare(ps, x[k], ov, path+"."+k, depth+1, region)
			case addl != nil:
				d.compare(addl, x[k], ov, path+"."+k, depth+1, region)
			default:
				if !refmodel.JSONEqual(x[k], ov) {
					d.add("changed", "additional-property-value", "%s.%s: %s became %s", path, k, short(x[k]), short(ov))
				}
			}
		}
		for _, k := range sortedKeys(y) {
			if _, had := x[k]; had {
				continue
			}
			ps, isDeclared := props[k]
			if y[k] == nil && isDeclared && refmodel.Resolve(d.root, ps)["type"] == "array" {
				continue // (ii) an absent array may be rendered as null
			}
			tc := "undeclared"
			if isDeclared {
				tc = "optional"
				if req[k] {
					tc = "required"
				}
				if rs := refmodel.Resolve(d.root, ps); rs["allOf"] != nil {
					tc += "-allOf-property"
				}
			}
			ctx := "plain-object"
			if s["allOf"] != nil {
				ctx = "object-with-allOf"
			}
			vc := valueClass(y[k])
			switch {
			case ctx == "object-with-allOf" && (vc == "empty-string" || vc == "zero-time" || vc == "zero-id" || vc == "zero-number" || vc == "false"):
				vc = "zero-value"
			case vc == "zero-time" || vc == "zero-id":
				vc = "zero-of-struct-backed-format"
			}
			if vc == "object" || vc == "array" || vc == "zero-of-struct-backed-format" {
				vc = "zero-of-non-pointer-struct-type"
			}
			if region != "" || strings.Contains(tc, "allOf-property") {
				ctx, tc, vc = "region:property-with-allOf", "", ""
			}
			d.add("added", strings.Trim(ctx+"|"+tc+"|"+vc, "|"), "%s.%s: key absent from the input appears in the re-encoded document with value %s", path, k, short(y[k]))
		}
	case []any:
		y, ok := out.([]any)
		if !ok {
			if out == nil && len(x) == 0 {
				return // empty array rendered as null: value-equivalent under (ii)
			}
			d.add("changed", "array-became-"+jsonKind(out), "%s: array re-encoded as %s", path, short(out))
			return
		}
		if it, isTuple := s["items"].(A); isTuple && len(x) != len(it) {
			return // tuples of another arity than declared: partial support (documented), unspecified
		}
		if len(x) != len(y) {
			d.add("changed", "array-length", "%s: %d items became %d", path, len(x), len(y))
			return
		}
		switch it := s["items"].(type) {
		case J:
			for i := range x {
				d.compare(it, x[i], y[i], fmt.Sprintf("%s[%d]", path, i), depth+1, region)
			}
		case A:
			for i := range x {
				var is J
				if i < len(it) {
					is, _ = it[i].(J)
				}
				if is == nil {
					is = J{}
				}
				d.compare(is, x[i], y[i], fmt.Sprintf("%s[%d]", path, i), depth+1, region)
			}
		default:
			if !refmodel.JSONEqual(in, out) {
				d.add("changed", "untyped-array", "%s: %s became %s", path, short(in), short(out))
			}
		}
	default:
		if valueEqual(s, in, out) {
			return
		}
		if region != "" {
			d.add("changed", region, "%s: %s became %s", path, short(in), short(out))
			return
		}
		d.add("changed", "value|"+typeClass(s), "%s: %s became %s", path, short(in), short(out))
	}
}

// valueEqual: JSON equality, and equality of the denoted value for formats
// whose canonical text differs from the input text.
func valueEqual(s J, in, out any) bool {
	if refmodel.JSONEqual(in, out) {
		return true
	}
	a, ok1 := in.(string)
	b, ok2 := out.(string)
	if !ok1 || !ok2 {
		return false
	}
	switch s["format"] {
	case "date-time":
		ta, ea := strfmt.ParseDateTime(a)
		tb, eb := strfmt.ParseDateTime(b)
		return ea == nil && eb == nil && time.Time(ta).Equal(time.Time(tb))
	case "duration":
		da, ea := strfmt.ParseDuration(a)
		db, eb := strfmt.ParseDuration(b)
		return ea == nil && eb == nil && da == db
	}
	return false
}

func lostDetail(region, kind, name string) string {
	if region != "" {
		return region
	}
	return kind + "|name:" + nameClass(name)
}

// nameClass: what makes a property name delicate for Go struct tags / identifiers.
func nameClass(n string) string {
	rs := []rune(n)
	if len(rs) == 0 {
		return "empty"
	}
	// encoding/json accepts in tag names: letters, digits and !#$%&()*+-./:;<=>?@[]^_{|}~ and space
	if strings.ContainsAny(n, "`\"',\\") {
		return "struct-tag-breaking-character"
	}
	for _, r := range rs {
		if r > 127 && !unicode.IsLetter(r) && !unicode.IsDigit(r) {
			return "non-ascii-symbol"
		}
	}
	ascii := true
	for _, r := range rs {
		if r > 127 {
			ascii = false
		}
	}
	first := rs[0]
	if first > 127 && unicode.IsLetter(first) && !unicode.IsUpper(unicode.ToUpper(first)) {
		// CJK and other caseless scripts, and letters such as ß whose upper case is not a single rune
		return "caseless-initial-letter"
	}
	if !ascii {
		return "non-ascii-letter"
	}
	for _, r := range rs {
		if !(r == '_' || (r >= 'a' && r <= 'z') || (r >= 'A' && r <= 'Z') || (r >= '0' && r <= '9')) {
			return "ascii-punctuation"
		}
	}
	return "ascii-identifier"
}

func valueClass(v any) string {
	switch x := v.(type) {
	case nil:
		return "null"
	case string:
		switch {
		case x == "":
			return "empty-string"
		case strings.HasPrefix(x, "0001-01-01"):
			return "zero-time"
		case strings.Trim(x, "0") == "":
			return "zero-id"
		}
		return "string"
	case float64:
		if x == 0 {
			return "zero-number"
		}
		return "number"
	case bool:
		return fmt.Sprint(x)
	case []any:
		if len(x) == 0 {
			return "empty-array"
		}
		return "array"
	case map[string]any:
		return "object"
	}
	return "?"
}

func jsonKind(v any) string {
	switch v.(type) {
	case nil:
		return "null"
	case string:
		return "string"
	case float64:
		return "number"
	case bool:
		return "boolean"
	case []any:
		return "array"
	case map[string]any:
		return "object"
	}
	return "?"
}

func short(v any) string {
	b, _ := json.Marshal(v)
	if len(b) > 80 {
		return string(b[:80]) + "…"
	}
	return string(b)
}

func sortedKeys(m map[string]any) []string {
	out := make([]string, 0, len(m))
	for k := range m {
		out = append(out, k)
	}
	sort.Strings(out)
	return out
}

func canonical(s string) string {
	var v any
	if json.Unmarshal([]byte(s), &v) != nil {
		return s
	}
	b, _ := json.Marshal(v)
	return string(b)
}

func check(c Case) (o pbt.Outcome) {
	if err := swg.ValidateSpec(c.Spec); err != nil {
		o.Discard = true
		o.Class("discard:invalid-spec")
		return
	}
	prog := work.BuildModels(c.Spec)
	if !prog.Usable() {
		o.Class("unusable-program:" + prog.Stage)
		o.Discard = true
		return
	}
	root, _ := specgen.Parse(c.Spec)
	defs, _ := root["definitions"].(J)
	var reqs []work.ModelReq
	for _, in := range c.Insts {
		reqs = append(reqs, work.ModelReq{Def: in.Def, Doc: in.Doc})
	}
	resps, err := prog.Exec(reqs)
	if err != nil {
		o.Fail("C05|harness-crash", "the program built from the generated models died: %v", err)
		return
	}
	o.Evals = len(reqs)
	o.Sample = map[string]any{"definitions": len(defs), "instances": len(c.Insts)}
	for i, in := range c.Insts {
		r := resps[i]
		s, _ := defs[in.Def].(J)
		if r.Unknown {
			o.Class("unspecified:definition-without-own-type")
			continue
		}
		if r.Panic != "" {
			o.Fail("C05|panic", "definition %s: generated code panicked on %s: %s", in.Def, in.Doc, r.Panic)
			continue
		}
		var v any
		if json.Unmarshal(in.Doc, &v) != nil {
			continue
		}
		// the property quantifies over documents valid for the schema
		if errs := refmodel.Validate(root, s, v, "body"); len(errs) > 0 {
			o.Class("skipped:not-valid-for-schema")
			continue
		}
		if r.DecodeErr != "" || r.ValidateErr != "" {
			// a valid document rejected by the generated model is property C02's subject
			o.Class("skipped:generated-model-rejects(C02)")
			continue
		}
		if r.MarshalErr != "" {
			o.Fail("C05|marshal-error", "definition %s: decoded value cannot be encoded: %s\n  doc: %s", in.Def, r.MarshalErr, in.Doc)
			continue
		}
		var out any
		if err := json.Unmarshal([]byte(r.Out), &out); err != nil {
			o.Fail("C05|output-not-json", "definition %s: re-encoded document is not JSON: %v", in.Def, err)
			continue
		}
		o.Class("instance:" + in.Class)
		shape := shapeOf(s)
		o.NT(in.Def + "|" + shape + "|" + in.Class + "|" + jsonKind(v))
		d := &differ{root: root}
		d.compare(J{"$ref": "#/definitions/" + in.Def}, v, out, "$", 0, "")
		if len(d.diffs) > 0 {
			first := d.diffs[0]
			sig := first[:strings.Index(first, ": ")]
			o.Fail("C05|"+sig, "definition %s: decode+encode does not preserve the document: %s\n  in:  %s\n  out: %s\n  schema: %s", in.Def, strings.Join(d.diffs, "; "), in.Doc, r.Out, specgen.JSONBytes(s))
			continue
		}
		if r.Err2 != "" {
			o.Fail("C05|second-pass-error", "definition %s: the re-encoded document cannot be decoded/encoded again: %s\n  out: %s", in.Def, r.Err2, r.Out)
			continue
		}
		if strings.Contains(shape, "tuple") || strings.Contains(closure(root, s), `"items":[`) {
			o.Class("unspecified:idempotence-with-tuples")
			continue
		}
		if canonical(r.Out) != canonical(r.Out2) {
			o.Fail("C05|not-idempotent", "definition %s: encoding the re-decoded output does not reproduce it\n  out:  %s\n  out2: %s", in.Def, r.Out, r.Out2)
		}
	}
	return
}

// closure is the JSON text of a schema and of every definition it references.
func closure(root J, s J) string {
	defs, _ := root["definitions"].(J)
	seen := map[string]bool{}
	var sb strings.Builder
	var visit func(txt string)
	visit = func(txt string) {
		sb.WriteString(txt)
		rest := txt
		for {
			i := strings.Index(rest, `"#/definitions/`)
			if i < 0 {
				break
			}
			rest = rest[i+len(`"#/definitions/`):]
			j := strings.Index(rest, `"`)
			if j < 0 {
				break
			}
			name := rest[:j]
			if !seen[name] {
				seen[name] = true
				if d, ok := defs[name].(J); ok {
					visit(string(specgen.JSONBytes(d)))
				}
			}
		}
	}
	visit(string(specgen.JSONBytes(s)))
	return sb.String()
}

func shapeOf(s J) string {
	b := string(specgen.JSONBytes(s))
	var f []string
	for _, k := range []string{"allOf", "additionalProperties", "$ref", "items", "discriminator", "format", "required", "readOnly", "x-nullable", "default"} {
		if strings.Contains(b, `"`+k+`"`) {
			f = append(f, k)
		}
	}
	if strings.Contains(b, `"items":[`) {
		f = append(f, "tuple")
	}
	return strings.Join(f, ",")
}

func TestProp(t *testing.T) {
	pbt.Main(t, pbt.Prop[Case]{
		ID:   "C05",
		Rule: "model programs as in C02 plus tuples, a discriminated base type with 2-3 subtypes reached through a property and an array, and property names from the nasty pool (kept distinct after mangling); per definition 10 (quick) / 30 (thorough) documents valid for the schema (self-written validator), a third of them biased to zero values / empty containers. Oracle: out = Marshal(Unmarshal(doc)) walked against doc along the schema: every declared value present and equal at its path (date-time and duration compared by denoted value), except an optional zero-valued property may be missing, an absent array may appear as null, undeclared properties may be dropped where additionalProperties is absent/false; no other key appears; required properties never missing; Marshal(Unmarshal(out)) == out. Non-trivial: document accepted by both the schema validator and the generated model; distinct by (definition, schema keyword set, instance class, JSON kind).",
		Assumptions: []string{
			"documents the generated model rejects are C02's subject and assert nothing here",
			"programs that do not generate or compile are C01's subject (counted unusable)",
			"empty arrays and empty objects count as the zero value of their type for tolerance (i)",
		},
		Gen:   gen,
		Check: check,
	})
}
