package c13

import (
	"encoding/json"
	"fmt"
	"os"
	"path/filepath"
	"sort"
	"strings"
	"testing"

	"github.com/go-swagger/go-swagger/cmd/swagger/commands"
	"github.com/go-swagger/go-swagger/cmd/swagger/commands/diff"
	"pgregory.net/rapid"

	"verif/internal/diffx"
	"verif/internal/pbt"
	"verif/internal/refmodel"
	"verif/internal/reqgen"
	"verif/internal/specgen"
	"verif/internal/swg"
)

type J = specgen.J
type A = specgen.A

type Case struct {
	Old     json.RawMessage   `json:"old"`
	New     json.RawMessage   `json:"new"`
	Kind    string            `json:"kind"`
	Loc     string            `json:"loc"`
	Family  string            `json:"family,omitempty"` // type family of the edited position (string, integer, number, boolean, array, object)
	Witness *refmodel.Request `json:"witness,omitempty"` // nil: response-side edit (breaking by definition)
	NoEdit  bool              `json:"no_edit,omitempty"` // generator found no applicable site
}

func Cfg() *specgen.SpecCfg {
	return &specgen.SpecCfg{
		Schema:  specgen.Opts{MaxDepth: 3, AllOf: true, AddlProps: true, Defaults: true, Descr: true},
		Simple:  specgen.SimpleOpts{Defaults: true, MaxDepth: 2},
		MinDefs: 1, MaxDefs: 4, MinPaths: 1, MaxPaths: 3, MaxParams: 4,
		Tags: true, Meta: true, SharedParams: true, RespHeaders: true,
		FormData: true, Body: true, OpConsumes: true, DefaultResponse: true,
		Methods: []string{"get", "put", "post", "delete", "patch"},
	}
}

func truthy(v any) bool { b, _ := v.(bool); return b }
func str(v any) string  { s, _ := v.(string); return s }

type paramTarget struct {
	op     specgen.OpSite
	p      specgen.ParamSite
	obj    J // the param or a nested items object
	depth  int
	pIndex int
}

// paramTargets lists non-body parameters and their nested items objects.
func paramTargets(doc J) []paramTarget {
	var out []paramTarget
	for _, op := range specgen.Ops(doc) {
		for i, p := range specgen.EffectiveParams(op) {
			if p.P["in"] == "body" || p.P["type"] == "file" {
				continue
			}
			obj, d := p.P, 0
			for obj != nil {
				out = append(out, paramTarget{op: op, p: p, obj: obj, depth: d, pIndex: i})
				obj, _ = obj["items"].(J)
				d++
			}
		}
	}
	return out
}

func schemaOf(p J) J {
	out := J{}
	for k, v := range p {
		switch k {
		case "name", "in", "required", "description", "default", "allowEmptyValue", "example":
			continue
		}
		out[k] = v
	}
	return out
}

func viaItems(d int) []string {
	var v []string
	for i := 0; i < d; i++ {
		v = append(v, "items")
	}
	return v
}

// witnessValue searches a value for the leaf position valid before, invalid after.
func witnessValue(t *rapid.T, label string, oldRoot, newRoot J, oldLeaf, newLeaf J) (any, bool) {
	for i, c := range specgen.Candidates(t, label, oldRoot, oldLeaf) {
		_ = i
		if len(refmodel.Validate(oldRoot, oldLeaf, c, "v")) == 0 && len(refmodel.Validate(newRoot, newLeaf, c, "v")) > 0 {
			return c, true
		}
	}
	return nil, false
}

func gen(t *rapid.T) Case {
	a := specgen.Spec(t, Cfg())
	cats := []string{"param-value", "param-value", "param-value", "body-value", "body-value", "body-value", "structural", "structural", "endpoint", "response"}
	first := rapid.SampledFrom(cats).Draw(t, "category")
	var last Case
	for i, cat := range []string{first, "param-value", "structural", "response", "endpoint"} {
		if i > 0 && cat == first {
			continue
		}
		c := genCat(t, fmt.Sprintf("c%d", i), a, cat)
		if !c.NoEdit {
			return c
		}
		last = c
	}
	return last
}

func genCat(t *rapid.T, pfx string, a J, cat string) Case {
	b := specgen.CloneJ(a)
	// sites are enumerated identically on a and b (same structure before the edit)
	c := Case{}
	family := ""
	done := func(kind, loc string, w *refmodel.Request) Case {
		c.Old, c.New, c.Kind, c.Loc, c.Witness, c.Family = specgen.JSONBytes(a), specgen.JSONBytes(b), kind, loc, w, family
		return c
	}
	none := func() Case {
		c.Old, c.New, c.NoEdit = specgen.JSONBytes(a), specgen.JSONBytes(a), true
		c.Loc = "none:" + cat
		return c
	}
	var nkind specgen.Narrowing
	switch cat {
	case "param-value":
		ta := paramTargets(a)
		if len(ta) == 0 {
			return none()
		}
		for try := 0; try < 60; try++ {
			b = specgen.CloneJ(a)
			tb := paramTargets(b)
			// stratified: the narrowing kind is drawn first (uniformly), then a
			// target; a kind is kept for several targets before another is drawn
			if try%6 == 0 {
				nkind = rapid.SampledFrom(specgen.Narrowings).Draw(t, fmt.Sprintf("%snk%d", pfx, try))
			}
			n := nkind
			i := rapid.IntRange(0, len(ta)-1).Draw(t, fmt.Sprintf("%spt%d", pfx, try))
			if !n.Apply(t, fmt.Sprintf("%sna%d", pfx, try), tb[i].obj) {
				continue
			}
			if tb[i].depth == 0 {
				delete(tb[i].obj, "default")
			}
			family = str(ta[i].obj["type"])
			loc := str(ta[i].p.P["in"]) + strings.Repeat(":items", ta[i].depth)
			if ta[i].p.Shared {
				loc += "|shared"
			}
			leafOld, leafNew := schemaOf(ta[i].obj), schemaOf(tb[i].obj)
			wv, ok := witnessValue(t, pfx+"wv", a, b, leafOld, leafNew)
			if !ok {
				return done(n.Kind, loc+"|no-witness", nil).noWitness()
			}
			full, ok := specgen.ValidForced(t, pfx+"wf", a, schemaOf(ta[i].p.P), viaItems(ta[i].depth), wv, 0)
			if !ok {
				return done(n.Kind, loc+"|no-witness", nil).noWitness()
			}
			key := str(ta[i].p.P["in"]) + ":" + str(ta[i].p.P["name"])
			w, ok := reqgen.ValidRequest(t, pfx+"req", a, ta[i].op.Path, ta[i].op.Method, reqgen.Opts{Force: map[string]any{key: full}})
			if !ok {
				return done(n.Kind, loc+"|no-witness", nil).noWitness()
			}
			return done(n.Kind, loc, w)
		}
		return none()
	case "body-value":
		sa := bodySites(a)
		if len(sa) == 0 {
			return none()
		}
		for try := 0; try < 60; try++ {
			b = specgen.CloneJ(a)
			sb := bodySites(b)
			if try%6 == 0 {
				nkind = rapid.SampledFrom(specgen.Narrowings).Draw(t, fmt.Sprintf("%snk%d", pfx, try))
			}
			n := nkind
			i := rapid.IntRange(0, len(sa)-1).Draw(t, fmt.Sprintf("%sbs%d", pfx, try))
			if sb[i].S["$ref"] != nil {
				continue
			}
			if !n.Apply(t, fmt.Sprintf("%sna%d", pfx, try), sb[i].S) {
				continue
			}
			family = str(sa[i].S["type"])
			loc := "body:" + sa[i].ViaClass()
			if sa[i].AllOfOnly {
				loc += "|allOf-only"
			}
			wv, ok := witnessValue(t, pfx+"wv", a, b, sa[i].S, sb[i].S)
			if !ok {
				return done(n.Kind, loc+"|no-witness", nil).noWitness()
			}
			top, _ := sa[i].Param["schema"].(J)
			full, ok := specgen.ValidForced(t, pfx+"wf", a, top, sa[i].Via, wv, 0)
			if !ok {
				return done(n.Kind, loc+"|no-witness", nil).noWitness()
			}
			w, ok := reqgen.ValidRequest(t, pfx+"req", a, sa[i].Op.Path, sa[i].Op.Method, reqgen.Opts{Force: map[string]any{"body:" + str(sa[i].Param["name"]): full}})
			if !ok {
				return done(n.Kind, loc+"|no-witness", nil).noWitness()
			}
			return done(n.Kind, loc, w)
		}
		return none()
	case "structural":
		return genStructural(t, a, b, done, none)
	case "endpoint":
		return genEndpoint(t, a, b, done, none)
	default:
		return genResponse(t, a, b, done, none)
	}
}

func (c Case) noWitness() Case { c.NoEdit = true; return c }

func bodySites(doc J) []specgen.SchemaSite {
	var out []specgen.SchemaSite
	for _, s := range specgen.SchemaSites(doc, true) {
		if s.Kind == "request" {
			out = append(out, s)
		}
	}
	return out
}

func genStructural(t *rapid.T, a, b J, done func(string, string, *refmodel.Request) Case, none func() Case) Case {
	kind := rapid.SampledFrom([]string{"param-optional-to-required", "param-required-added", "param-in-changed", "collectionFormat-changed", "body-becomes-required", "property-added-required", "property-optional-to-required"}).Draw(t, "skind")
	opsA, opsB := specgen.Ops(a), specgen.Ops(b)
	if len(opsA) == 0 {
		return none()
	}
	switch kind {
	case "param-optional-to-required", "param-in-changed", "collectionFormat-changed":
		type cand struct {
			oi, pi int
		}
		var cs []cand
		for oi, op := range opsA {
			for pi, p := range specgen.EffectiveParams(op) {
				in := str(p.P["in"])
				if in == "body" || in == "path" || p.P["type"] == "file" {
					continue
				}
				switch kind {
				case "param-optional-to-required":
					if !truthy(p.P["required"]) {
						cs = append(cs, cand{oi, pi})
					}
				case "param-in-changed":
					if (in == "query" || in == "header") && p.P["collectionFormat"] != "multi" && !truthy(p.P["allowEmptyValue"]) {
						cs = append(cs, cand{oi, pi})
					}
				case "collectionFormat-changed":
					if p.P["type"] == "array" {
						cs = append(cs, cand{oi, pi})
					}
				}
			}
		}
		if len(cs) == 0 {
			return none()
		}
		c := cs[rapid.IntRange(0, len(cs)-1).Draw(t, "sc")]
		pa := specgen.EffectiveParams(opsA[c.oi])[c.pi]
		pb := specgen.EffectiveParams(opsB[c.oi])[c.pi]
		key := str(pa.P["in"]) + ":" + str(pa.P["name"])
		loc := str(pa.P["in"])
		if pa.Shared {
			loc += "|shared"
		}
		switch kind {
		case "param-optional-to-required":
			pb.P["required"] = true
			delete(pb.P, "default")
			w, ok := reqgen.ValidRequest(t, "req", a, opsA[c.oi].Path, opsA[c.oi].Method, reqgen.Opts{Omit: map[string]bool{key: true}})
			if !ok {
				return none()
			}
			return done(kind, loc, w)
		case "param-in-changed":
			if truthy(pa.P["required"]) {
				loc += "|required"
			} else {
				loc += "|optional"
			}
			if pb.P["in"] == "query" {
				pb.P["in"] = "header"
			} else {
				pb.P["in"] = "query"
			}
			v, ok := specgen.ValidSimple(t, "pv", schemaOf(pa.P))
			if !ok {
				return none()
			}
			w, ok := reqgen.ValidRequest(t, "req", a, opsA[c.oi].Path, opsA[c.oi].Method, reqgen.Opts{Force: map[string]any{key: v}})
			if !ok {
				return none()
			}
			return done(kind, loc, w)
		default:
			cur := str(pa.P["collectionFormat"])
			if cur == "" {
				cur = "csv"
			}
			var alt []string
			for _, x := range []string{"csv", "ssv", "tsv", "pipes"} {
				if x != cur {
					alt = append(alt, x)
				}
			}
			pb.P["collectionFormat"] = rapid.SampledFrom(alt).Draw(t, "ncf")
			delete(pb.P, "default")
			// a value with at least two items makes the separator matter
			sch := schemaOf(pa.P)
			if mn, _ := sch["minItems"].(float64); mn < 2 {
				sch["minItems"] = 2
				if mx, ok := sch["maxItems"].(float64); ok && mx < 2 {
					return none()
				}
			}
			v, ok := specgen.ValidSimple(t, "pv", sch)
			if !ok {
				return none()
			}
			w, ok := reqgen.ValidRequest(t, "req", a, opsA[c.oi].Path, opsA[c.oi].Method, reqgen.Opts{Force: map[string]any{key: v}})
			if !ok {
				return none()
			}
			return done(kind, loc, w)
		}
	case "param-required-added":
		oi := rapid.IntRange(0, len(opsA)-1).Draw(t, "oi")
		in := rapid.SampledFrom([]string{"query", "header"}).Draw(t, "in")
		np := J{"name": "addedreq" + specgen.PlainName(t, "npn"), "in": in, "required": true, "type": rapid.SampledFrom([]string{"string", "integer"}).Draw(t, "nty")}
		if in == "header" {
			np["name"] = "X-Added-Req"
		}
		opsB[oi].Op["parameters"] = append(asList(opsB[oi].Op["parameters"]), np)
		w, ok := reqgen.ValidRequest(t, "req", a, opsA[oi].Path, opsA[oi].Method, reqgen.Opts{})
		if !ok {
			return none()
		}
		return done(kind, in, w)
	case "body-becomes-required":
		type cand struct{ oi, pi int }
		var cs []cand
		for oi, op := range opsA {
			for pi, p := range specgen.EffectiveParams(op) {
				if p.P["in"] == "body" && !truthy(p.P["required"]) {
					cs = append(cs, cand{oi, pi})
				}
			}
		}
		if len(cs) == 0 {
			return none()
		}
		c := cs[rapid.IntRange(0, len(cs)-1).Draw(t, "sc")]
		pa := specgen.EffectiveParams(opsA[c.oi])[c.pi]
		specgen.EffectiveParams(opsB[c.oi])[c.pi].P["required"] = true
		w, ok := reqgen.ValidRequest(t, "req", a, opsA[c.oi].Path, opsA[c.oi].Method, reqgen.Opts{Omit: map[string]bool{"body:" + str(pa.P["name"]): true}})
		if !ok {
			return none()
		}
		return done(kind, "body", w)
	default: // property-added-required, property-optional-to-required
		sa, sb := bodySites(a), bodySites(b)
		var idx []int
		for i, s := range sa {
			props, _ := s.S["properties"].(J)
			if props == nil || s.S["type"] != "object" {
				continue
			}
			if kind == "property-optional-to-required" {
				req := map[string]bool{}
				for _, r := range asList(s.S["required"]) {
					req[str(r)] = true
				}
				opt := false
				for pn := range props {
					if !req[pn] {
						opt = true
					}
				}
				if !opt {
					continue
				}
			}
			idx = append(idx, i)
		}
		if len(idx) == 0 {
			return none()
		}
		i := idx[rapid.IntRange(0, len(idx)-1).Draw(t, "si")]
		props := sb[i].S["properties"].(J)
		if kind == "property-added-required" {
			pn := "addedreq" + specgen.PlainName(t, "npn")
			props[pn] = J{"type": rapid.SampledFrom([]string{"string", "integer", "boolean"}).Draw(t, "nty")}
			sb[i].S["required"] = append(asList(sb[i].S["required"]), pn)
		} else {
			req := map[string]bool{}
			for _, r := range asList(sb[i].S["required"]) {
				req[str(r)] = true
			}
			var opt []string
			for pn := range props {
				if !req[pn] {
					opt = append(opt, pn)
				}
			}
			sort.Strings(opt)
			pn := rapid.SampledFrom(opt).Draw(t, "pn")
			sb[i].S["required"] = append(asList(sb[i].S["required"]), pn)
		}
		loc := "body:" + sa[i].ViaClass()
		if sa[i].AllOfOnly {
			loc += "|allOf-only"
		}
		wv, ok := witnessValue(t, "wv", a, b, sa[i].S, sb[i].S)
		if !ok {
			return done(kind, loc+"|no-witness", nil).noWitness()
		}
		top, _ := sa[i].Param["schema"].(J)
		full, ok := specgen.ValidForced(t, "wf", a, top, sa[i].Via, wv, 0)
		if !ok {
			return done(kind, loc+"|no-witness", nil).noWitness()
		}
		w, ok := reqgen.ValidRequest(t, "req", a, sa[i].Op.Path, sa[i].Op.Method, reqgen.Opts{Force: map[string]any{"body:" + str(sa[i].Param["name"]): full}})
		if !ok {
			return none()
		}
		return done(kind, loc, w)
	}
}

func asList(v any) A { l, _ := v.(A); return l }

func genEndpoint(t *rapid.T, a, b J, done func(string, string, *refmodel.Request) Case, none func() Case) Case {
	kind := rapid.SampledFrom([]string{"remove-path", "remove-method", "consumes-removed-global", "consumes-removed-op"}).Draw(t, "ekind")
	opsA, opsB := specgen.Ops(a), specgen.Ops(b)
	if len(opsA) == 0 {
		return none()
	}
	switch kind {
	case "remove-path", "remove-method":
		oi := rapid.IntRange(0, len(opsA)-1).Draw(t, "oi")
		w, ok := reqgen.ValidRequest(t, "req", a, opsA[oi].Path, opsA[oi].Method, reqgen.Opts{})
		if !ok {
			return none()
		}
		paths := b["paths"].(J)
		if kind == "remove-path" {
			if len(paths) < 2 {
				return none()
			}
			delete(paths, opsB[oi].Path)
		} else {
			if len(opsB) < 2 {
				return none()
			}
			delete(opsB[oi].Item, opsB[oi].Method)
			left := 0
			for k := range opsB[oi].Item {
				switch k {
				case "get", "put", "post", "delete", "options", "head", "patch":
					left++
				}
			}
			if left == 0 {
				delete(paths, opsB[oi].Path)
			}
		}
		return done(kind, "endpoint", w)
	default:
		var idx []int
		for oi, op := range opsA {
			hasBody := false
			for _, p := range specgen.EffectiveParams(op) {
				if p.P["in"] == "body" {
					hasBody = true
				}
			}
			if !hasBody {
				continue
			}
			if kind == "consumes-removed-op" && len(asList(op.Op["consumes"])) >= 2 {
				idx = append(idx, oi)
			}
			if kind == "consumes-removed-global" && op.Op["consumes"] == nil && len(asList(a["consumes"])) >= 2 {
				idx = append(idx, oi)
			}
		}
		if len(idx) == 0 {
			return none()
		}
		oi := idx[rapid.IntRange(0, len(idx)-1).Draw(t, "oi")]
		var holder J = b
		if kind == "consumes-removed-op" {
			holder = opsB[oi].Op
		}
		cons := asList(holder["consumes"])
		ri := rapid.IntRange(0, len(cons)-1).Draw(t, "ri")
		removed := str(cons[ri])
		var left A
		for i, c := range cons {
			if i != ri {
				left = append(left, c)
			}
		}
		holder["consumes"] = left
		w, ok := reqgen.ValidRequest(t, "req", a, opsA[oi].Path, opsA[oi].Method, reqgen.Opts{AllOptional: true, ContentType: removed})
		if !ok || !w.HasBody {
			return none()
		}
		return done(kind, "consumes", w)
	}
}

func genResponse(t *rapid.T, a, b J, done func(string, string, *refmodel.Request) Case, none func() Case) Case {
	kind := rapid.SampledFrom([]string{"response-code-removed", "response-property-removed", "response-header-removed", "response-enum-value-added"}).Draw(t, "rkind")
	opsB := specgen.Ops(b)
	switch kind {
	case "response-code-removed":
		var cand []int
		for i, op := range opsB {
			r, _ := op.Op["responses"].(J)
			n := 0
			for c := range r {
				if !strings.HasPrefix(c, "x-") && c != "default" {
					n++
				}
			}
			if n >= 2 {
				cand = append(cand, i)
			}
		}
		if len(cand) == 0 {
			return none()
		}
		op := opsB[cand[rapid.IntRange(0, len(cand)-1).Draw(t, "oi")]]
		r := op.Op["responses"].(J)
		var codes []string
		for c := range r {
			if !strings.HasPrefix(c, "x-") && c != "default" {
				codes = append(codes, c)
			}
		}
		sort.Strings(codes)
		delete(r, rapid.SampledFrom(codes).Draw(t, "code"))
		return done(kind, "response", nil)
	case "response-header-removed":
		var cand []J
		for _, op := range opsB {
			r, _ := op.Op["responses"].(J)
			for _, c := range sortedKeys(r) {
				rj, _ := r[c].(J)
				if rj != nil && c != "default" && !strings.HasPrefix(c, "x-") {
					if h, ok := rj["headers"].(J); ok && len(h) > 0 {
						cand = append(cand, rj)
					}
				}
			}
		}
		if len(cand) == 0 {
			return none()
		}
		rj := cand[rapid.IntRange(0, len(cand)-1).Draw(t, "ri")]
		h := rj["headers"].(J)
		hn := rapid.SampledFrom(sortedKeys(h)).Draw(t, "hn")
		delete(h, hn)
		if len(h) == 0 {
			delete(rj, "headers")
		}
		return done(kind, "response-header", nil)
	default:
		var sites []specgen.SchemaSite
		for _, s := range specgen.SchemaSites(b, true) {
			if s.Kind != "response" || s.Code == "default" {
				continue
			}
			if kind == "response-property-removed" {
				if p, ok := s.S["properties"].(J); ok && len(p) > 0 && s.S["type"] == "object" {
					sites = append(sites, s)
				}
			} else if e, ok := s.S["enum"].(A); ok && len(e) > 0 {
				sites = append(sites, s)
			}
		}
		if len(sites) == 0 {
			return none()
		}
		s := sites[rapid.IntRange(0, len(sites)-1).Draw(t, "si")]
		loc := "response:" + s.ViaClass()
		if s.AllOfOnly {
			loc += "|allOf-only"
		}
		family := str(s.S["type"])
		doneR := done
		done = func(kind, loc string, w *refmodel.Request) Case {
			c := doneR(kind, loc, w)
			c.Family = family
			return c
		}
		if kind == "response-property-removed" {
			props := s.S["properties"].(J)
			pn := rapid.SampledFrom(sortedKeys(props)).Draw(t, "pn")
			delete(props, pn)
			var req A
			for _, r := range asList(s.S["required"]) {
				if r != pn {
					req = append(req, r)
				}
			}
			if len(req) == 0 {
				delete(s.S, "required")
			} else {
				s.S["required"] = req
			}
			if len(props) == 0 {
				delete(s.S, "properties")
			}
		} else {
			e := s.S["enum"].(A)
			var nv any = "zzz-added"
			if s.S["type"] != "string" {
				nv = 9971
			}
			s.S["enum"] = append(append(A{}, e...), nv)
			delete(s.S, "default")
		}
		return done(kind, loc, nil)
	}
}

// signature reduces a missed edit to its root-cause class (see DESIGN.md C13):
// regions in which diff compares nothing at all get one signature, everything
// else one per (edit kind, location class).
func signature(c Case) string {
	loc := strings.ReplaceAll(c.Loc, "|shared", "")
	numeric := c.Family == "integer" || c.Family == "number"
	switch {
	case strings.Contains(loc, ":items"):
		return "C13|not-breaking|region:parameter-items"
	case strings.Contains(loc, "addl"):
		return "C13|not-breaking|region:additionalProperties-schema"
	case strings.Contains(loc, "|allOf-only"):
		return "C13|not-breaking|region:allOf-without-own-properties"
	case strings.HasPrefix(c.Kind, "multipleOf"):
		return "C13|not-breaking|keyword:multipleOf"
	case c.Kind == "uniqueItems-on":
		return "C13|not-breaking|keyword:uniqueItems"
	case strings.Contains(c.Kind, "enum") && numeric:
		return "C13|not-breaking|keyword:enum-on-numeric"
	case c.Kind == "format-narrowed" && c.Family == "integer":
		return "C13|not-breaking|format:integer-unformatted-to-int32"
	}
	if i := strings.Index(loc, ":"); i >= 0 && (strings.HasPrefix(loc, "body:") || strings.HasPrefix(loc, "response:")) {
		steps := strings.Split(loc[i+1:], ">")
		has := func(x string) bool {
			for _, s := range steps {
				if s == x {
					return true
				}
			}
			return false
		}
		cl := "top"
		switch {
		case has("allOf"):
			cl = "via-allOf"
		case has("items") || has("tuple"):
			cl = "via-items"
		case has("ref"):
			cl = "via-ref"
		case has("prop"):
			cl = "prop"
		}
		loc = loc[:i+1] + cl
	}
	return "C13|not-breaking|" + c.Kind + "|" + loc
}

func short(s string) string {
	if len(s) > 90 {
		return s[:90]
	}
	return s
}

func sortedKeys(m J) []string {
	out := make([]string, 0, len(m))
	for k := range m {
		out = append(out, k)
	}
	sort.Strings(out)
	return out
}

var tmpDir string

func tmp() string {
	if tmpDir == "" {
		d, err := os.MkdirTemp(pbt.Getenv("VERIF_SCRATCH", ""), "c13-")
		if err != nil {
			panic(err)
		}
		tmpDir = d
	}
	return tmpDir
}

func check(c Case) (o pbt.Outcome) {
	swg.Quiet()
	if c.NoEdit {
		o.Discard = true
		o.Class("discard:no-applicable-site-or-witness")
		if c.Kind != "" {
			o.Class("no-witness:" + c.Kind)
		} else {
			o.Class(c.Loc)
		}
		return
	}
	cell := c.Kind + "|" + c.Loc
	o.Class("kind:" + c.Kind)
	sampled := len(c.Old)%4 == 0
	defer func() {
		if len(o.Violations) == 0 && !sampled {
			o.Class("validity:not-sampled")
			return
		}
		if swg.ValidateSpec(c.Old) != nil || swg.ValidateSpec(c.New) != nil {
			o.Violations, o.NonTrivial = nil, nil
			o.Discard = true
			o.Class("validity:invalid-discarded")
		} else {
			o.Class("validity:validated")
		}
	}()
	oldT, err1 := specgen.Parse(c.Old)
	newT, err2 := specgen.Parse(c.New)
	if err1 != nil || err2 != nil {
		o.Discard = true
		return
	}
	if c.Witness != nil {
		// double-oracle rule: both validators must certify valid-before / invalid-after
		bo, bn := refmodel.Bind(oldT, c.Witness), refmodel.Bind(newT, c.Witness)
		if bo.Verdict != refmodel.Accept || bn.Verdict != refmodel.Reject {
			o.Discard = true
			o.Class(fmt.Sprintf("witness-not-certified:refmodel:%s/%s", bo.Verdict, bn.Verdict))
			if os.Getenv("VERIF_DEBUG") != "" {
				o.Class("why-old:" + c.Kind + ":" + short(bo.Reason) + " // new:" + short(bn.Reason))
			}
			return
		}
		lo, e1 := refmodel.NewLib(c.Old)
		ln, e2 := refmodel.NewLib(c.New)
		if e1 != nil || e2 != nil {
			o.Discard = true
			o.Class("witness-not-certified:library-load-error")
			return
		}
		ao, whyo := lo.Accepts(c.Witness)
		an, whyn := ln.Accepts(c.Witness)
		if whyo == "library-panic" || whyn == "library-panic" {
			o.Discard = true
			o.Class("witness-not-certified:library-oracle-panicked")
			return
		}
		if !ao || an {
			o.Discard = true
			o.Class(fmt.Sprintf("oracle-disagreement:library-says-old=%v,new=%v", ao, an))
			if os.Getenv("VERIF_DEBUG") != "" {
				o.Class(fmt.Sprintf("why-lib: %s %s old=%s new=%s", c.Kind, c.Loc, short(whyo), short(whyn)))
			}
			return
		}
		o.Class("witness-certified")
	} else {
		o.Class("response-edit")
	}
	o.NT(cell)
	o.Sample = map[string]any{"kind": c.Kind, "loc": c.Loc, "witness": c.Witness}
	s1, e1 := swg.Swagger(c.Old)
	s2, e2 := swg.Swagger(c.New)
	if e1 != nil || e2 != nil {
		o.Discard = true
		return
	}
	r := diffx.Compare(s1, s2)
	if r.Panicked || r.Timeout || r.Err != nil {
		o.Class("skipped:diff-crashed")
		return
	}
	breaking := r.Diffs.BreakingChangeCount()
	if breaking == 0 {
		var codes []string
		for _, d := range r.Diffs {
			codes = append(codes, d.Code.Description()+"/"+d.Compatibility.String())
		}
		sort.Strings(codes)
		w, _ := json.Marshal(c.Witness)
		o.Fail(signature(c), "edit %q at %q breaks the witness request but diff reports no Breaking change.\n  reported: %v\n  witness: %s", c.Kind, c.Loc, codes, w)
		return
	}
	o.Class("flagged-breaking")
	// exit path: the command object the binary runs
	if len(c.Old)%3 == 0 {
		dir := tmp()
		pa := swg.WriteTemp(dir, "old.json", c.Old)
		pb := swg.WriteTemp(dir, "new.json", c.New)
		for _, onlyBreaking := range []bool{false, true} {
			cmd := &commands.DiffCommand{Format: "txt", IgnoreFile: "none specified", Destination: filepath.Join(dir, "out.txt"), OnlyBreakingChanges: onlyBreaking}
			cmd.Args.OldSpec, cmd.Args.NewSpec = pa, pb
			var err error
			panicked, pmsg, _ := pbt.Recover(func() { err = cmd.Execute(nil) })
			if panicked {
				o.Class("skipped:cli-crashed:" + diffx.PanicClass(pmsg))
				return
			}
			o.Class("cli-exit-checked")
			if err == nil {
				o.Fail(fmt.Sprintf("C13|exit-zero|txt|b=%v", onlyBreaking), "swagger diff (txt, -b=%v) returns no error although %d Breaking changes are reported", onlyBreaking, breaking)
			}
		}
	}
	return
}

var _ = diff.Breaking

func TestProp(t *testing.T) {
	pbt.Main(t, pbt.Prop[Case]{
		ID:   "C13",
		Rule: "base spec x one elementary narrowing edit x witness request. Edits: 23 value-narrowing kinds (bounds, exclusivity, multipleOf, lengths, pattern, enum, item counts, uniqueItems, type, format) at every non-body parameter and items depth (query/path/header/formData, operation-level or path-level shared) and at every body-schema position (properties, items, allOf members, additionalProperties, through $ref); structural (optional->required, required parameter/property added, location, collectionFormat, body required); endpoint/method/consumes removal; response code/property/header removal and response enum growth. A request edit counts only when a concrete witness request is accepted before and rejected after by BOTH the self-written reference binder and go-openapi/runtime's untyped server; otherwise the case is discarded and counted. Oracle: >=1 difference classified Breaking and (on a third of the cases) a non-nil error from DiffCommand.Execute in txt and -b mode. Non-trivial: certified witness (or response edit); distinct by (edit kind, location class).",
		Assumptions: []string{
			"response-side edits are breaking by the statement and docs/reference/transform/diff.md, no witness needed",
			"validity decided by validate.Spec on every violating case and a 1-in-4 sample of the others",
			"the reference binder's 'unspecified' verdicts discard the case",
		},
		Gen:   gen,
		Check: check,
	})
}
