package c04

import (
	"regexp"
	"encoding/json"
	"fmt"
	"sort"
	"strconv"
	"strings"
	"testing"

	"pgregory.net/rapid"

	"verif/internal/pbt"
	"verif/internal/refmodel"
	"verif/internal/reqgen"
	"verif/internal/specgen"
	"verif/internal/swg"
	"verif/internal/work"
)

type J = specgen.J
type A = specgen.A

type Call struct {
	Template string                     `json:"template"`
	Method   string                     `json:"method"`
	Params   map[string]json.RawMessage `json:"params"` // spec parameter name -> typed value
	Plan     work.Plan                  `json:"plan"`
	PlanKind string                     `json:"plan_kind"` // declared-2xx | declared-other | default | undeclared
	Code     string                     `json:"code"`      // response key of the spec the plan follows ("" undeclared)
	HdrVals  map[string]json.RawMessage `json:"hdr_vals,omitempty"`
}

type Case struct {
	Spec  json.RawMessage `json:"spec"`
	Calls []Call          `json:"calls"`
}

var formats = []string{"date", "date-time", "uuid", "email", "byte", "password", "uri"}

func Cfg() *specgen.SpecCfg {
	return &specgen.SpecCfg{
		Schema:  specgen.Opts{MaxDepth: 2, AddlProps: true, Formats: formats},
		Simple:  specgen.SimpleOpts{Defaults: true, MaxDepth: 2, Formats: formats},
		MinDefs: 1, MaxDefs: 3, MinPaths: 2, MaxPaths: 3, MaxParams: 4, AcyclicRefs: true,
		SharedParams: true, FormData: true, Body: true, UniqueParamNames: true, FocusParams: true,
		RespHeaders: true, DefaultResponse: true,
		Methods: []string{"get", "put", "post", "delete", "patch"},
	}
}

func str(v any) string { s, _ := v.(string); return s }

func gen(t *rapid.T) Case {
	doc := specgen.Spec(t, Cfg())
	doc["consumes"] = A{"application/json"}
	// the media types the API produces need not be those it consumes
	switch rapid.IntRange(0, 3).Draw(t, "produces") {
	case 0:
		doc["produces"] = A{"application/xml", "application/json"}
	case 1:
		doc["produces"] = A{"application/json", "text/plain"}
	default:
		doc["produces"] = A{"application/json"}
	}
	c := Case{Spec: specgen.JSONBytes(doc)}
	per := pbt.LoadEnv("C04").N(25, 80)
	for oi, op := range specgen.Ops(doc) {
		resps, _ := op.Op["responses"].(J)
		var codes []string
		for k := range resps {
			if !strings.HasPrefix(k, "x-") {
				codes = append(codes, k)
			}
		}
		sort.Strings(codes)
		for i := 0; i < per; i++ {
			l := fmt.Sprintf("o%d_c%d", oi, i)
			r, ok := reqgen.ValidRequest(t, l, doc, op.Path, op.Method, reqgen.Opts{OptionalPct: 70})
			if !ok {
				continue
			}
			call := Call{Template: op.Path, Method: op.Method, Params: map[string]json.RawMessage{}}
			for k, v := range r.Typed {
				name := k[strings.Index(k, ":")+1:]
				call.Params[name] = specgen.JSONBytes(v)
			}
			if r.HasBody {
				for _, p := range specgen.EffectiveParams(op) {
					if p.P["in"] == "body" {
						call.Params[str(p.P["name"])] = json.RawMessage(r.Body)
					}
				}
			}
			// response plan
			pk := rapid.SampledFrom([]string{"declared", "declared", "declared", "undeclared"}).Draw(t, l+"_plan")
			var rs J
			if pk == "declared" {
				call.Code = rapid.SampledFrom(codes).Draw(t, l+"_code")
				rs, _ = resps[call.Code].(J)
				switch {
				case call.Code == "default":
					call.PlanKind = "default"
					call.Plan.Status = rapid.SampledFrom([]int{400, 403, 409, 500, 503}).Draw(t, l+"_dstatus")
					if _, declared := resps[strconv.Itoa(call.Plan.Status)]; declared {
						call.Plan.Status = 418
					}
				default:
					call.Plan.Status, _ = strconv.Atoi(call.Code)
					if call.Plan.Status >= 200 && call.Plan.Status < 300 {
						call.PlanKind = "declared-2xx"
					} else {
						call.PlanKind = "declared-other"
					}
				}
			} else {
				call.PlanKind = "undeclared"
				call.Plan.Status = rapid.SampledFrom([]int{202, 203, 302, 401, 402, 410, 418, 429, 502}).Draw(t, l+"_ustatus")
				if _, declared := resps[strconv.Itoa(call.Plan.Status)]; declared || resps["default"] != nil {
					continue
				}
			}
			if rs != nil {
				if sch, ok := rs["schema"].(J); ok && call.Plan.Status != 204 {
					if v, ok := specgen.Valid(t, l+"_payload", doc, sch, 0); ok {
						call.Plan.Body = specgen.JSONBytes(v)
					}
				}
				if hs, ok := rs["headers"].(J); ok {
					call.Plan.Headers = map[string][]string{}
					call.HdrVals = map[string]json.RawMessage{}
					for _, hn := range sortedKeys(hs) {
						hsch, _ := hs[hn].(J)
						v, ok := specgen.ValidSimple(t, l+"_h_"+hn, schemaOf(hsch))
						if !ok {
							continue
						}
						raws, ok := refmodel.Encode(hsch, v)
						if !ok || len(raws) != 1 || raws[0] == "" || strings.ContainsAny(raws[0], "\r\n") {
							continue
						}
						call.Plan.Headers[hn] = raws
						call.HdrVals[hn] = specgen.JSONBytes(v)
					}
				}
			}
			c.Calls = append(c.Calls, call)
		}
	}
	return c
}

func schemaOf(p J) J {
	out := J{}
	for k, v := range p {
		switch k {
		case "name", "in", "required", "description", "default", "allowEmptyValue", "example":
			continue
		}
		out[k] = v
	}
	return out
}

func sortedKeys(m J) []string {
	out := make([]string, 0, len(m))
	for k := range m {
		out = append(out, k)
	}
	sort.Strings(out)
	return out
}

func isZero(v any) bool {
	switch x := v.(type) {
	case nil:
		return true
	case string:
		return x == ""
	case float64:
		return x == 0
	case bool:
		return !x
	case []any:
		return len(x) == 0
	case map[string]any:
		return len(x) == 0
	}
	return false
}

// subsetEqual: every non-zero leaf of want is present and equal in got.
func subsetEqual(want, got any) bool {
	switch w := want.(type) {
	case map[string]any:
		g, ok := got.(map[string]any)
		if !ok {
			return len(w) == 0 && got == nil
		}
		for k, wv := range w {
			gv, present := g[k]
			if !present {
				if isZero(wv) {
					continue
				}
				return false
			}
			if !subsetEqual(wv, gv) {
				return false
			}
		}
		return true
	case []any:
		g, ok := got.([]any)
		if !ok {
			return len(w) == 0 && got == nil
		}
		if len(w) != len(g) {
			return false
		}
		for i := range w {
			if !subsetEqual(w[i], g[i]) {
				return false
			}
		}
		return true
	}
	return refmodel.ValueEqual("", want, got) || (isZero(want) && got == nil)
}

func valueEq(p J, want, got any) bool {
	if arr, ok := want.([]any); ok {
		g, ok := got.([]any)
		if !ok || len(arr) != len(g) {
			return len(arr) == 0 && got == nil
		}
		items, _ := p["items"].(J)
		if items == nil {
			items = J{}
		}
		for i := range arr {
			if !valueEq(items, arr[i], g[i]) {
				return false
			}
		}
		return true
	}
	return refmodel.ValueEqual(str(p["format"]), want, got)
}

func typeClass(p J) string {
	t := str(p["type"])
	if t == "array" {
		if it, ok := p["items"].(J); ok {
			return "array-of-" + typeClass(it)
		}
	}
	if f := str(p["format"]); f != "" {
		return t + ":" + f
	}
	return t
}

func check(c Case) (o pbt.Outcome) {
	if err := swg.ValidateSpec(c.Spec); err != nil {
		o.Discard = true
		o.Class("discard:invalid-spec")
		return
	}
	prog := work.BuildServer(c.Spec, true)
	if !prog.Usable() {
		o.Class("unusable-program:" + prog.Stage)
		o.Discard = true
		return
	}
	doc, _ := specgen.Parse(c.Spec)
	var reqs []work.SrvReq
	for i := range c.Calls {
		call := c.Calls[i]
		plan := call.Plan
		reqs = append(reqs, work.SrvReq{Op: "call", Key: strings.ToUpper(call.Method) + " " + call.Template, Params: call.Params, Plan: &plan})
	}
	resps, err := prog.Exec(reqs)
	if err != nil {
		o.Fail("C04|harness-crash", "the program built from the generated server and client died: %v", err)
		return
	}
	o.Evals = len(reqs)
	if len(c.Calls) > 0 {
		o.Sample = map[string]any{"operations": len(specgen.Ops(doc)), "calls": len(c.Calls), "first": c.Calls[0]}
	}
	for i, call := range c.Calls {
		r := resps[i]
		op := refmodel.FindOp(doc, call.Template, call.Method)
		if op == nil {
			continue
		}
		if r.Panic != "" && panicClass(r.Panic) == "interface-conversion" && strings.Contains(planShape(doc, call), "header:array-of-") {
			o.Fail("C04|panic|interface-conversion|response-header-array-of-formatted-strings", "generated client panicked while reading the response: %s\n  call: %s", r.Panic, js(call))
			continue
		}
		if r.Panic != "" {
			site := r.PanicSite
			if site == "" {
				site = planShape(doc, call)
			}
			site = regexp.MustCompile(`\(\*?[A-Za-z0-9_]+\)`).ReplaceAllString(site, "(T)")
			site = regexp.MustCompile(`bindParam\w+`).ReplaceAllString(site, "bindParam*")
			o.Fail("C04|panic|"+panicClass(r.Panic)+"|"+site, "generated client/server panicked: %s (in %s)\n  call: %s", r.Panic, r.PanicSite, js(call))
			continue
		}
		if r.Client == nil || r.Client.Unknown {
			o.Fail("C04|no-client-method", "no client method submits %s %s", call.Method, call.Template)
			continue
		}
		for name, e := range r.Client.SetErrs {
			o.Class("skipped:cannot-set-client-param")
			_ = name
			_ = e
		}
		if len(r.Client.SetErrs) > 0 {
			continue
		}
		o.Class("plan:" + call.PlanKind)
		shape := opShape(op)
		o.NT(shape + "|" + call.PlanKind + "|" + planShape(doc, call))
		// (a) what the server handler saw
		reached := r.Observed != nil && r.Observed.Reached != ""
		bodyAbsentButSent := false
		for _, p := range op.Params {
			if _, given := call.Params[str(p["name"])]; p["in"] == "body" && !given && r.Client.Wire != nil && strings.TrimSpace(r.Client.Wire.Body) != "" {
				bodyAbsentButSent = true
			}
		}
		if !reached && bodyAbsentButSent {
			o.Fail("C04|absent-optional-body-sent-as-zero-value", "the optional body was not given to the client, which nevertheless sent %q; the server rejected the request: %s\n  call: %s", r.Client.Wire.Body, r.Client.ErrorText, js(call))
			continue
		}
		if !reached {
			o.Fail("C04|server-rejects-client-request|"+errClass(r.Client.ErrorText), "a call with spec-conforming values does not reach the server handler: client error %s %s\n  call: %s\n  wire: %s\n  params: %s", r.Client.ErrorType, r.Client.ErrorText, js(call), js(r.Client.Wire), js(op.Params))
			continue
		}
		for _, p := range op.Params {
			name := str(p["name"])
			if p["type"] == "file" {
				continue
			}
			raw, given := call.Params[name]
			got, present := r.Observed.Params[work.Norm(name)]
			if !present {
				continue
			}
			var gv, wv any
			_ = json.Unmarshal(got, &gv)
			okv := true
			switch {
			case !given && p["in"] == "body":
				if !isZero(gv) || bodyAbsentButSent {
					o.Fail("C04|absent-optional-body-sent-as-zero-value", "the optional body was not given to the client; the server handler received %s (wire body %q)\n  parameter: %s", got, r.Client.Wire.Body, js(p))
				}
				continue
			case !given:
				if d, ok := p["default"]; ok {
					if _, representable := refmodel.Encode(p, specgen.Clone(d)); !representable {
						continue // a default with empty / padded items cannot travel in the collection format
					}
					okv = valueEq(p, specgen.Clone(d), gv)
				} else {
					okv = isZero(gv)
				}
			case p["in"] == "body":
				_ = json.Unmarshal(raw, &wv)
				if bs, ok := p["schema"].(J); ok {
					wv = refmodel.StripUndeclared(doc, bs, wv, 0)
				}
				okv = subsetEqual(wv, gv)
			default:
				_ = json.Unmarshal(raw, &wv)
				okv = valueEq(p, wv, gv)
			}
			if !okv {
				given2 := "absent"
				if given {
					given2 = string(raw)
				}
				o.Fail(fmt.Sprintf("C04|param-mismatch|%s|%s", str(p["in"]), typeClass(pOrSchema(doc, p))), "parameter %s: client was given %s, server handler received %s\n  wire: %s\n  parameter: %s", name, given2, got, js(r.Client.Wire), js(p))
			}
		}
		// (b) what the client returned
		cl := r.Client
		switch call.PlanKind {
		case "declared-2xx":
			if cl.ErrorType != "" || cl.ResultType == "" {
				o.Fail("C04|declared-2xx-not-a-result|"+planShape(doc, call), "handler answered the declared %d but the client returned error %s %q (result type %q)\n  call: %s", call.Plan.Status, cl.ErrorType, cl.ErrorText, cl.ResultType, js(call))
				continue
			}
			checkContent(&o, doc, call, cl.Result, "result")
		case "declared-other", "default":
			if cl.ErrorType == "" {
				if call.PlanKind == "default" && call.Plan.Status >= 200 && call.Plan.Status < 300 && cl.ResultType != "" {
					// a default response carrying a 2xx code may be returned as a result
					checkContent(&o, doc, call, cl.Result, "result")
					continue
				}
				o.Fail("C04|declared-error-returned-as-success|"+call.PlanKind, "handler answered %d (%s response) but the client call returned no error (result %s)\n  call: %s", call.Plan.Status, call.PlanKind, cl.ResultType, js(call))
				continue
			}
			if cl.ErrorType == "*runtime.APIError" {
				o.Fail("C04|declared-code-as-generic-error|"+call.PlanKind, "handler answered %d (%s response) but the client returned a generic API error: %s\n  call: %s", call.Plan.Status, call.PlanKind, cl.ErrorText, js(call))
				continue
			}
			if cl.ErrorCode != 0 && cl.ErrorCode != call.Plan.Status {
				o.Fail("C04|wrong-error-code", "handler answered %d, typed error reports %d", call.Plan.Status, cl.ErrorCode)
			}
			checkContent(&o, doc, call, cl.ErrorValue, "error")
		case "undeclared":
			if cl.ErrorType != "*runtime.APIError" || cl.ErrorCode != call.Plan.Status {
				o.Fail("C04|undeclared-code-not-generic-error", "handler answered the undeclared %d; client returned result %q error %s (code %d) %q", call.Plan.Status, cl.ResultType, cl.ErrorType, cl.ErrorCode, cl.ErrorText)
			}
		}
	}
	return
}

func pOrSchema(doc J, p J) J {
	if p["in"] == "body" {
		if s, ok := p["schema"].(J); ok {
			return refmodel.Resolve(doc, s)
		}
	}
	return p
}

// checkContent compares payload and headers carried by the client's typed result/error.
func checkContent(o *pbt.Outcome, doc J, call Call, got map[string]json.RawMessage, what string) {
	op := specgen.J{}
	_ = op
	resps := responsesOf(doc, call)
	rs, _ := resps[call.Code].(J)
	if rs == nil {
		return
	}
	if len(call.Plan.Body) > 0 {
		raw, ok := got["payload"]
		if !ok {
			o.Fail("C04|payload-lost|"+what, "typed %s for %d carries no payload field; sent %s", what, call.Plan.Status, call.Plan.Body)
		} else {
			var wv, gv any
			_ = json.Unmarshal(call.Plan.Body, &wv)
			_ = json.Unmarshal(raw, &gv)
			if sch, ok := rs["schema"].(J); ok {
				wv = refmodel.StripUndeclared(doc, sch, wv, 0)
			}
			if !subsetEqual(wv, gv) {
				sch, _ := rs["schema"].(J)
				o.Fail("C04|payload-mismatch|"+what+"|"+typeClass(refmodel.Resolve(doc, sch)), "handler sent payload %s, client %s carries %s\n  response: %s", call.Plan.Body, what, raw, js(rs))
			}
		}
	}
	hs, _ := rs["headers"].(J)
	for hn, want := range call.HdrVals {
		hsch, _ := hs[hn].(J)
		raw, ok := got[work.Norm(hn)]
		if !ok {
			o.Fail("C04|header-lost|"+what, "typed %s has no field for response header %s", what, hn)
			continue
		}
		var wv, gv any
		_ = json.Unmarshal(want, &wv)
		_ = json.Unmarshal(raw, &gv)
		if !valueEq(hsch, wv, gv) {
			o.Fail("C04|header-mismatch|"+typeClass(hsch), "response header %s: handler sent %s (%v), client %s carries %s\n  header: %s", hn, want, call.Plan.Headers[hn], what, raw, js(hsch))
		}
	}
}

func responsesOf(doc J, call Call) J {
	paths, _ := doc["paths"].(J)
	item, _ := paths[call.Template].(J)
	op, _ := item[call.Method].(J)
	r, _ := op["responses"].(J)
	return r
}

func planShape(doc J, call Call) string {
	rs, _ := responsesOf(doc, call)[call.Code].(J)
	if rs == nil {
		return "no-content"
	}
	var parts []string
	if sch, ok := rs["schema"].(J); ok {
		parts = append(parts, "payload:"+typeClass(refmodel.Resolve(doc, sch)))
	}
	if hs, ok := rs["headers"].(J); ok {
		for _, hn := range sortedKeys(hs) {
			parts = append(parts, "header:"+typeClass(hs[hn].(J)))
		}
	}
	if len(parts) == 0 {
		return "no-content"
	}
	return strings.Join(parts, ",")
}

func opShape(op *refmodel.OpInfo) string {
	var parts []string
	for _, p := range op.Params {
		parts = append(parts, str(p["in"])+"/"+typeClass(p))
	}
	sort.Strings(parts)
	return op.Method + ":" + strings.Join(parts, ",")
}

func panicClass(m string) string {
	switch {
	case strings.Contains(m, "interface conversion"):
		return "interface-conversion"
	case strings.Contains(m, "nil pointer"):
		return "nil-deref"
	case strings.Contains(m, "unexpected success response"):
		return "unexpected-success-response"
	}
	if len(m) > 40 {
		m = m[:40]
	}
	return m
}

func errClass(m string) string {
	switch {
	case strings.Contains(m, "(status 415)"):
		return "415"
	case strings.Contains(m, "(status 422)"):
		return "422"
	case strings.Contains(m, "(status 400)"):
		return "400"
	case strings.Contains(m, "(status 404)"):
		return "404"
	case strings.Contains(m, "(status 500)"):
		return "500"
	}
	// "[POST /a/{b}][422] opName default ..." : the client's typed default-response error
	if mm := regexp.MustCompile(`^\[[A-Z]+ [^\]]*\]\[(\d+)\]`).FindStringSubmatch(m); mm != nil {
		return mm[1] + " (typed default response)"
	}
	if len(m) > 50 {
		m = m[:50]
	}
	return m
}

func js(v any) string {
	b, _ := json.Marshal(v)
	if len(b) > 1500 {
		return string(b[:1500]) + "…"
	}
	return string(b)
}

func TestProp(t *testing.T) {
	pbt.Main(t, pbt.Prop[Case]{
		ID:   "C04",
		Rule: "server+client programs generated from one spec (parameters of every location, type, format and collectionFormat; bodies of primitives, arrays, maps and models; responses with schemas, scalar and array headers, default responses) and compiled into one program in which the generated client talks to the generated server through an in-process RoundTripper; per operation 25 (quick) / 80 (thorough) calls: spec-conforming typed values written into the client's parameter struct by reflection, and a response plan {declared 2xx, declared other code, default, undeclared code} with a valid payload and header values. Oracle: (a) the Params struct recorded by the server handler equals the values given to the client; (b) the client returns the typed result (declared 2xx) or typed error (other declared codes, default) with equal payload and headers, or *runtime.APIError with the code for an undeclared status. Non-trivial: call that reached the server; distinct by (operation parameter signature, plan kind, response shape).",
		Assumptions: []string{
			"the handler answers with a raw responder (status, headers, JSON body): the server-side WriteResponse of generated responder types is not exercised",
			"values are representable in the declared collectionFormat, strings non-empty; file parameters and readOnly body properties are not generated; model payloads are compared as subsets (zero members may be added/dropped: C05)",
		},
		Gen:   gen,
		Check: check,
	})
}
