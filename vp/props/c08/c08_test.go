package c08

import (
	"encoding/json"
	"fmt"
	"regexp"
	"sort"
	"strings"
	"testing"

	"pgregory.net/rapid"

	"verif/internal/pbt"
	"verif/internal/specgen"
	"verif/internal/swg"
	"verif/internal/work"
)

type J = specgen.J
type A = specgen.A

type Case struct {
	Spec  json.RawMessage `json:"spec"`
	Kinds []string        `json:"kinds"` // collision groups planted
}

var stems = []string{"thing", "user id", "http server", "pet store", "order item", "api key", "x ray", "big data set"}

// variants renders a stem (words) in mangling-equivalent spellings.
func variants(stem string) map[string][]string {
	w := strings.Fields(stem)
	title := func(ws []string) []string {
		out := make([]string, len(ws))
		for i, x := range ws {
			out[i] = strings.ToUpper(x[:1]) + x[1:]
		}
		return out
	}
	return map[string][]string{
		"punctuation": {strings.Join(w, "-"), strings.Join(w, "_"), strings.Join(w, " "), strings.Join(w, ".")},
		"case":        {strings.Join(w, ""), strings.Join(title(w), ""), strings.ToUpper(strings.Join(w, "")), w[0] + strings.Join(title(w[1:]), "")},
		"mixed":       {strings.Join(w, "_"), strings.Join(title(w), ""), w[0] + strings.Join(title(w[1:]), ""), strings.Join(title(w), "-")},
	}
}

func pickTwo(t *rapid.T, label string, xs []string) (string, string) {
	i := rapid.IntRange(0, len(xs)-1).Draw(t, label+"_i")
	j := rapid.IntRange(0, len(xs)-2).Draw(t, label+"_j")
	if j >= i {
		j++
	}
	return xs[i], xs[j]
}

func okResp() J { return J{"200": J{"description": "ok"}} }

func gen(t *rapid.T) Case {
	doc := J{"swagger": "2.0", "info": J{"title": "collide", "version": "1"}, "consumes": A{"application/json"}, "produces": A{"application/json"}}
	defs := J{"Control": J{"type": "object", "properties": J{"id": J{"type": "string"}}}}
	paths := J{}
	var kinds []string
	marker := 0
	addOp := func(path, method string, op J) {
		marker++
		params := A{J{"name": "marker", "in": "query", "type": "string", "default": fmt.Sprintf("op-%d", marker)}}
		for _, seg := range strings.Split(path, "/") {
			if strings.HasPrefix(seg, "{") {
				params = append(params, J{"name": strings.Trim(seg, "{}"), "in": "path", "required": true, "type": "string"})
			}
		}
		if extra, ok := op["parameters"].(A); ok {
			params = append(params, extra...)
		}
		op["parameters"] = params
		if op["responses"] == nil {
			op["responses"] = okResp()
		}
		item, _ := paths[path].(J)
		if item == nil {
			item = J{}
			paths[path] = item
		}
		item[method] = op
	}
	// controls: plain, distinct
	addOp("/control", "get", J{"operationId": "getControl"})
	addOp("/control/{id}", "put", J{"operationId": "putControl", "tags": A{"ctl"}})
	// ordinary operations in the remaining path shapes: the root path, a trailing slash sibling, a deep path
	if rapid.IntRange(0, 2).Draw(t, "rootop") > 0 {
		addOp("/", "get", J{"operationId": "getRoot"})
		if rapid.Bool().Draw(t, "rootpost") {
			addOp("/", "post", J{"operationId": "postRoot", "tags": A{"ctl"}})
		}
		if rapid.Bool().Draw(t, "basepath") {
			doc["basePath"] = "/api"
		}
	}
	if rapid.IntRange(0, 2).Draw(t, "deepop") == 0 {
		addOp("/control/{id}/parts/{part}", "delete", J{"operationId": "deletePart"})
	}
	n := rapid.IntRange(0, 2).Draw(t, "ngroups") // 0: controls only
	usedStem := map[string]bool{}
	for g := 0; g < n; g++ {
		gl := fmt.Sprintf("g%d", g)
		stem := rapid.SampledFrom(stems).Draw(t, gl+"_stem")
		if usedStem[stem] {
			continue
		}
		usedStem[stem] = true
		vk := rapid.SampledFrom([]string{"punctuation", "case", "mixed"}).Draw(t, gl+"_vk")
		a, b := pickTwo(t, gl+"_pair", variants(stem)[vk])
		kind := rapid.SampledFrom([]string{"definition", "definition", "operation-id", "operation-id", "path-without-id", "id-vs-synthetic", "tag", "tag-reserved", "param-case", "param-two-locations", "definition-vs-inline"}).Draw(t, gl+"_kind")
		switch kind {
		case "definition":
			defs[a] = J{"type": "object", "properties": J{"first": J{"type": "string"}}}
			defs[b] = J{"type": "object", "properties": J{"second": J{"type": "integer"}}}
			addOp("/use"+fmt.Sprint(g), "post", J{"operationId": fmt.Sprintf("useDefs%d", g), "parameters": A{J{"name": "body", "in": "body", "schema": J{"$ref": "#/definitions/" + jptr(a)}}},
				"responses": J{"200": J{"description": "ok", "schema": J{"$ref": "#/definitions/" + jptr(b)}}}})
		case "operation-id":
			addOp(fmt.Sprintf("/ida%d", g), "get", J{"operationId": a})
			addOp(fmt.Sprintf("/idb%d", g), "get", J{"operationId": b})
		case "path-without-id":
			pa, pb := "/"+strings.ReplaceAll(a, " ", "%20"), "/"+strings.ReplaceAll(b, " ", "%20")
			if strings.Contains(pa, "%") || strings.Contains(pb, "%") || strings.EqualFold(pa, pb) && vk == "case" && false {
				pa, pb = "/"+strings.ReplaceAll(a, " ", "-"), "/"+strings.ReplaceAll(b, " ", "_")
			}
			if pa == pb {
				continue
			}
			addOp(pa, "get", J{})
			addOp(pb, "get", J{})
		case "id-vs-synthetic":
			// an explicit id equal to the name synthesised for an id-less operation
			addOp(fmt.Sprintf("/syn%d", g), "get", J{})
			addOp(fmt.Sprintf("/other%d", g), "get", J{"operationId": fmt.Sprintf("GetSyn%d", g)})
		case "tag":
			addOp(fmt.Sprintf("/ta%d", g), "get", J{"operationId": fmt.Sprintf("tagA%d", g), "tags": A{a}})
			addOp(fmt.Sprintf("/tb%d", g), "get", J{"operationId": fmt.Sprintf("tagB%d", g), "tags": A{b}})
		case "tag-reserved":
			rt := rapid.SampledFrom([]string{"operations", "models", "restapi", "client", "Operations"}).Draw(t, gl+"_rt")
			addOp(fmt.Sprintf("/tr%d", g), "get", J{"operationId": fmt.Sprintf("tagR%d", g), "tags": A{rt}})
			addOp(fmt.Sprintf("/tn%d", g), "get", J{"operationId": fmt.Sprintf("tagN%d", g)})
		case "param-case":
			addOp(fmt.Sprintf("/pc%d", g), "get", J{"operationId": fmt.Sprintf("paramCase%d", g), "parameters": A{
				J{"name": a, "in": "query", "type": "string"}, J{"name": b, "in": "query", "type": "integer"}}})
		case "param-two-locations":
			addOp(fmt.Sprintf("/pl%d", g), "get", J{"operationId": fmt.Sprintf("paramLoc%d", g), "parameters": A{
				J{"name": a, "in": "query", "type": "string"}, J{"name": "X-" + strings.ReplaceAll(b, " ", "-"), "in": "header", "type": "string"}, J{"name": strings.ReplaceAll(a, " ", "-"), "in": "header", "type": "string"}}})
		case "definition-vs-inline":
			// a definition named like the type generated for an inline body / response
			opid := fmt.Sprintf("inline%d", g)
			defs["Inline"+fmt.Sprint(g)+"Body"] = J{"type": "object", "properties": J{"own": J{"type": "string"}}}
			defs["Inline"+fmt.Sprint(g)+"OKBody"] = J{"type": "object", "properties": J{"own2": J{"type": "string"}}}
			addOp(fmt.Sprintf("/in%d", g), "post", J{"operationId": opid, "parameters": A{J{"name": "body", "in": "body", "schema": J{"type": "object", "properties": J{"anon": J{"type": "string"}}}}},
				"responses": J{"200": J{"description": "ok", "schema": J{"type": "object", "properties": J{"anon2": J{"type": "integer"}}}}}})
		}
		kinds = append(kinds, kind+":"+vk)
	}
	doc["definitions"] = defs
	doc["paths"] = paths
	return Case{Spec: specgen.JSONBytes(doc), Kinds: kinds}
}

func jptr(s string) string {
	return strings.ReplaceAll(strings.ReplaceAll(strings.ReplaceAll(s, "~", "~0"), "/", "~1"), " ", "%20")
}

var reRedeclared = regexp.MustCompile(`redeclared|duplicate (field|method|case|key)|already declared|has both field and method`)

func check(c Case) (o pbt.Outcome) {
	if err := swg.ValidateSpec(c.Spec); err != nil {
		o.Discard = true
		o.Class("discard:invalid-spec")
		return
	}
	doc, _ := specgen.Parse(c.Spec)
	kinds := strings.Join(c.Kinds, ",")
	for _, k := range c.Kinds {
		o.Class("collision:" + k)
	}
	prog := work.BuildServer(c.Spec, true)
	defer prog.Drop()
	o.Sample = map[string]any{"collisions": c.Kinds, "stage": prog.Stage}
	switch prog.Stage {
	case "generate-server", "generate-client":
		// the generator refused: allowed by the property
		o.Class("generator-refused:" + prog.Stage)
		o.NT(kinds + "|refused")
		return
	case "build":
		if reRedeclared.MatchString(prog.Reason) {
			first := firstLine(prog.Reason)
			role := strings.SplitN(work.CompileErrClass(prog.Reason), "|", 2)[0]
			o.Fail("C08|merged-into-one-go-name|"+role+"|"+cause(c.Kinds, "operation-id", "id-vs-synthetic", "path-without-id", "param-case", "param-two-locations", "tag", "tag-reserved", "definition", "definition-vs-inline"), "generation exited 0 but two spec items were given the same Go name (collisions planted: %v):\n%s", c.Kinds, first)
			return
		}
		o.Discard = true
		o.Class("unusable-program:build")
		return
	}
	o.NT(kinds + "|built")
	// (i) one model type per definition
	ann := work.ModelAnnotations(prog.Dir)
	defs, _ := doc["definitions"].(J)
	types := map[string]string{}
	for _, dn := range sortedKeys(defs) {
		typ, ok := ann[dn]
		if !ok {
			o.Fail("C08|definition-without-model|"+cause(c.Kinds, "definition", "definition-vs-inline"), "definition %q has no generated model type (swagger:model annotations found: %v)", dn, sortedKeysS(ann))
			continue
		}
		if other, dup := types[typ]; dup {
			o.Fail("C08|definitions-share-type|"+cause(c.Kinds, "definition", "definition-vs-inline"), "definitions %q and %q share the Go type %s", other, dn, typ)
		}
		types[typ] = dn
	}
	// (ii)+(iii) operations
	ops := specgen.Ops(doc)
	reqs := []work.SrvReq{{Op: "info"}}
	for _, op := range ops {
		u := op.Path
		for _, seg := range strings.Split(op.Path, "/") {
			if strings.HasPrefix(seg, "{") {
				u = strings.Replace(u, seg, "v1", 1)
			}
		}
		if bp, ok := doc["basePath"].(string); ok && bp != "/" {
			u = bp + u
		}
		body := ""
		h := map[string][]string{}
		if op.Method == "post" || op.Method == "put" {
			body = "{}"
			h["Content-Type"] = []string{"application/json"}
		}
		reqs = append(reqs, work.SrvReq{Op: "request", Method: op.Method, URL: u, Headers: h, Body: body, Plan: &work.Plan{Status: 200, Body: json.RawMessage("{}")}})
	}
	resps, err := prog.Exec(reqs)
	if err != nil {
		o.Fail("C08|harness-crash", "the program built from the generated server died: %v", err)
		return
	}
	o.Evals = len(reqs)
	info := resps[0].Info
	hf, _ := info["handler_fields"].([]any)
	cm, _ := info["client_methods"].([]any)
	if len(hf) != len(ops) {
		o.Fail("C08|handler-count|"+cause(c.Kinds, "path-without-id", "id-vs-synthetic", "operation-id"), "the spec has %d operations, the generated API has %d handler fields: %v", len(ops), len(hf), hf)
	}
	if len(cm) != len(ops) {
		o.Fail("C08|client-method-count|"+cause(c.Kinds, "path-without-id", "id-vs-synthetic", "operation-id"), "the spec has %d operations, the generated client submits %d distinct method+path operations: %v", len(ops), len(cm), cm)
	}
	seenField := map[string]string{}
	for i, op := range ops {
		r := resps[i+1]
		key := op.Method + " " + op.Path
		want := markerOf(op)
		if r.Observed == nil || r.Observed.Reached == "" {
			o.Fail("C08|operation-unreachable|"+cause(c.Kinds, "path-without-id", "id-vs-synthetic", "operation-id"), "%s answered %d without reaching a handler: %s", key, r.Status, r.RespBody)
			continue
		}
		var got string
		_ = json.Unmarshal(r.Observed.Params["marker"], &got)
		if got != want {
			o.Fail("C08|wrong-operation-reached|"+cause(c.Kinds, "path-without-id", "id-vs-synthetic", "operation-id"), "%s reached handler %s whose parameters carry the marker %q of another operation (expected %q)", key, r.Observed.Reached, got, want)
		}
		if prev, dup := seenField[r.Observed.Reached]; dup {
			o.Fail("C08|operations-share-handler|"+cause(c.Kinds, "path-without-id", "id-vs-synthetic", "operation-id"), "%s and %s are served by the same handler field %s", prev, key, r.Observed.Reached)
		}
		seenField[r.Observed.Reached] = key
	}
	return
}

func markerOf(op specgen.OpSite) string {
	for _, p := range specgen.EffectiveParams(op) {
		if p.P["name"] == "marker" {
			s, _ := p.P["default"].(string)
			return s
		}
	}
	return ""
}

func kindsClass(k []string) string {
	s := append([]string{}, k...)
	sort.Strings(s)
	return strings.Join(s, "+")
}

// cause: whether a planted collision group of the family that can explain a
// violation of this kind is present (signatures stay narrow: a violation in a spec
// without such a group is never covered by a listed finding).
func cause(kinds []string, families ...string) string {
	for _, k := range kinds {
		for _, f := range families {
			if strings.HasPrefix(k, f+":") {
				return "with-planted-collision"
			}
		}
	}
	return "without-planted-collision"
}

func firstLine(s string) string {
	for _, l := range strings.Split(s, "\n") {
		if strings.Contains(l, ".go:") {
			return l
		}
	}
	return s
}

func sortedKeys(m J) []string {
	out := make([]string, 0, len(m))
	for k := range m {
		out = append(out, k)
	}
	sort.Strings(out)
	return out
}

func sortedKeysS(m map[string]string) []string {
	out := make([]string, 0, len(m))
	for k := range m {
		out = append(out, k)
	}
	sort.Strings(out)
	return out
}

func TestProp(t *testing.T) {
	pbt.Main(t, pbt.Prop[Case]{
		ID:   "C08",
		Rule: "specs with two plain control operations and 1-2 planted groups of names that are equivalent after Go-name mangling (spelling variants of one stem: punctuation a-b/a_b/'a b'/a.b, case, mixed camel/snake/kebab), planted as: definition names, operation ids, id-less paths differing in punctuation, an explicit id equal to a synthesised one, tags, tags equal to a generated package name, parameter names in one or two locations, definitions named like generated inline body types. `swagger generate server` + `generate client` (binary from the tree), compiled with the reflection harness. Oracle: the generator exits non-zero, or: the tree builds (a redeclaration / duplicate-field error is a violation; other build errors are C01's), every definition has its own `swagger:model` type, the API has one handler field and the client one method per operation, and a request to every method+path reaches a handler whose Params carry that operation's unique marker default and whose handler field is not shared. Non-trivial: spec with >= 1 planted collision; distinct by (collision kinds, outcome).",
		Assumptions: []string{
			"operation identity is observed behaviourally through a per-operation `marker` query parameter with a unique default",
		},
		Gen:   gen,
		Check: check,
	})
}
