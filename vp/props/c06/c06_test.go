package c06

import (
	"encoding/base64"
	"encoding/json"
	"fmt"
	"net/url"
	"sort"
	"strings"
	"testing"

	"pgregory.net/rapid"

	"verif/internal/pbt"
	"verif/internal/specgen"
	"verif/internal/swg"
	"verif/internal/work"
)

type J = specgen.J
type A = specgen.A

// Cred is one presented credential.
type Cred struct {
	Scheme string   `json:"scheme"`
	Valid  bool     `json:"valid"`
	Scopes []string `json:"scopes,omitempty"` // oauth2: scopes granted to the token
	Token  string   `json:"token"`
}

type Req struct {
	Path   string `json:"path"`
	Method string `json:"method"`
	Creds  []Cred `json:"creds"`
}

type Case struct {
	Spec json.RawMessage `json:"spec"`
	Reqs []Req           `json:"reqs"`
}

var scopePool = []string{"read", "write", "admin"}

func genSpec(t *rapid.T) J {
	doc := J{"swagger": "2.0", "info": J{"title": "sec", "version": "1"}, "consumes": A{"application/json"}, "produces": A{"application/json"}}
	nd := rapid.IntRange(1, 4).Draw(t, "nsec")
	sd := J{}
	var names []string
	used := map[string]bool{}
	usedParam := map[string]bool{}
	for i := 0; i < nd; i++ {
		name := specgen.Unique(t, fmt.Sprintf("sec%d", i), used, strings.ToLower, specgen.PlainName)
		var s J
		switch rapid.SampledFrom([]string{"basic", "apiKey-header", "apiKey-query", "oauth2", "oauth2"}).Draw(t, fmt.Sprintf("sec%d_kind", i)) {
		case "basic":
			s = J{"type": "basic"}
		case "apiKey-header":
			hn := specgen.Unique(t, fmt.Sprintf("sec%d_hn", i), usedParam, strings.ToLower, specgen.PlainName)
			s = J{"type": "apiKey", "in": "header", "name": "X-Key-" + hn}
		case "apiKey-query":
			qn := specgen.Unique(t, fmt.Sprintf("sec%d_qn", i), usedParam, strings.ToLower, specgen.PlainName)
			s = J{"type": "apiKey", "in": "query", "name": "key" + qn}
		default:
			sc := J{}
			for _, x := range scopePool {
				sc[x] = "scope " + x
			}
			flow := rapid.SampledFrom([]string{"password", "application", "implicit", "accessCode"}).Draw(t, fmt.Sprintf("sec%d_flow", i))
			s = J{"type": "oauth2", "flow": flow, "scopes": sc}
			if flow == "password" || flow == "application" || flow == "accessCode" {
				s["tokenUrl"] = "https://example.com/token"
			}
			if flow == "implicit" || flow == "accessCode" {
				s["authorizationUrl"] = "https://example.com/auth"
			}
		}
		sd[name] = s
		names = append(names, name)
	}
	doc["securityDefinitions"] = sd
	requirement := func(label string) A {
		var out A
		n := rapid.IntRange(1, 3).Draw(t, label+"_nalt")
		for i := 0; i < n; i++ {
			alt := J{}
			k := rapid.IntRange(1, 2).Draw(t, fmt.Sprintf("%s_alt%d_n", label, i))
			for j := 0; j < k; j++ {
				nm := rapid.SampledFrom(names).Draw(t, fmt.Sprintf("%s_alt%d_%d", label, i, j))
				scopes := A{}
				if sd[nm].(J)["type"] == "oauth2" {
					for si, s := range scopePool {
						if rapid.IntRange(0, 2).Draw(t, fmt.Sprintf("%s_alt%d_%d_s%d", label, i, j, si)) == 0 {
							scopes = append(scopes, s)
						}
					}
				}
				alt[nm] = scopes
			}
			dup := false
			for _, prev := range out {
				if string(specgen.JSONBytes(prev)) == string(specgen.JSONBytes(alt)) {
					dup = true
				}
			}
			if !dup {
				out = append(out, alt)
			}
		}
		// optional authentication: an anonymous alternative next to named ones
		if rapid.IntRange(0, 5).Draw(t, label+"_anon") == 0 {
			if rapid.Bool().Draw(t, label+"_anon_first") {
				out = append(A{J{}}, out...)
			} else {
				out = append(out, J{})
			}
		}
		return out
	}
	switch rapid.SampledFrom([]string{"absent", "absent", "empty", "list", "list"}).Draw(t, "global") {
	case "empty":
		doc["security"] = A{}
	case "list":
		doc["security"] = requirement("gsec")
	}
	paths := J{}
	nops := rapid.IntRange(3, 5).Draw(t, "nops")
	usedP := map[string]bool{}
	for i := 0; i < nops; i++ {
		p := "/" + specgen.Unique(t, fmt.Sprintf("op%d_path", i), usedP, nil, specgen.PlainName)
		op := J{"operationId": fmt.Sprintf("op%d%s", i, specgen.PlainName(t, fmt.Sprintf("op%d_id", i))), "responses": J{"200": J{"description": "ok"}}}
		switch rapid.SampledFrom([]string{"absent", "absent", "empty", "list", "list", "list"}).Draw(t, fmt.Sprintf("op%d_sec", i)) {
		case "empty":
			op["security"] = A{}
		case "list":
			op["security"] = requirement(fmt.Sprintf("op%d_req", i))
		}
		if rapid.Bool().Draw(t, fmt.Sprintf("op%d_tag", i)) {
			op["tags"] = A{rapid.SampledFrom([]string{"alpha", "beta"}).Draw(t, fmt.Sprintf("op%d_tagn", i))}
		}
		paths[p] = J{rapid.SampledFrom([]string{"get", "post", "delete"}).Draw(t, fmt.Sprintf("op%d_m", i)): op}
	}
	doc["paths"] = paths
	return doc
}

func gen(t *rapid.T) Case {
	doc := genSpec(t)
	c := Case{Spec: specgen.JSONBytes(doc)}
	sd := doc["securityDefinitions"].(J)
	var names []string
	for n := range sd {
		names = append(names, n)
	}
	sort.Strings(names)
	per := pbt.LoadEnv("C06").N(24, 60)
	for oi, op := range specgen.Ops(doc) {
		for i := 0; i < per; i++ {
			l := fmt.Sprintf("o%d_r%d", oi, i)
			r := Req{Path: op.Path, Method: op.Method}
			// one credential per transport: every basic scheme sees the same Authorization
			// header, every oauth2 scheme the same bearer token; apiKey schemes have their own slot
			drawn := map[string]bool{}
			for ni, n := range names {
				kind := sd[n].(J)["type"].(string)
				slot := n
				if kind == "basic" || kind == "oauth2" {
					slot = kind
				}
				if drawn[slot] {
					continue
				}
				drawn[slot] = true
				switch rapid.IntRange(0, 3).Draw(t, fmt.Sprintf("%s_c%d", l, ni)) {
				case 0, 1: // not presented
				case 2:
					cr := Cred{Scheme: slot, Valid: true}
					cr.Token = fmt.Sprintf("good%d%d", oi, i)
					if kind == "oauth2" {
						for si, s := range scopePool {
							if rapid.IntRange(0, 1).Draw(t, fmt.Sprintf("%s_c%d_s%d", l, ni, si)) == 0 {
								cr.Scopes = append(cr.Scopes, s)
							}
						}
						cr.Token += ":" + strings.Join(cr.Scopes, ",")
					}
					r.Creds = append(r.Creds, cr)
				case 3:
					r.Creds = append(r.Creds, Cred{Scheme: slot, Valid: false, Token: fmt.Sprintf("bad%d%d", oi, i)})
				}
			}
			c.Reqs = append(c.Reqs, r)
		}
	}
	return c
}

func asList(v any) A { l, _ := v.(A); return l }

// effective requirement of an operation.
func effective(doc J, op specgen.OpSite) (alts []J, defined bool) {
	if s, ok := op.Op["security"]; ok {
		for _, a := range asList(s) {
			if aj, ok := a.(J); ok {
				alts = append(alts, aj)
			}
		}
		return alts, true
	}
	if s, ok := doc["security"]; ok {
		for _, a := range asList(s) {
			if aj, ok := a.(J); ok {
				alts = append(alts, aj)
			}
		}
		return alts, true
	}
	return nil, false
}

func toHarness(doc J, r Req) (work.SrvReq, bool) {
	sd := doc["securityDefinitions"].(J)
	h := map[string][]string{}
	q := url.Values{}
	authUsed := false
	hasBasic := false
	for _, c := range r.Creds {
		if c.Scheme == "basic" {
			hasBasic = true
		}
	}
	for _, c := range r.Creds {
		switch c.Scheme {
		case "basic":
			h["Authorization"] = []string{"Basic " + base64.StdEncoding.EncodeToString([]byte("user-basic:"+c.Token))}
		case "oauth2":
			if hasBasic {
				q.Set("access_token", c.Token)
			} else {
				h["Authorization"] = []string{"Bearer " + c.Token}
			}
		default:
			d := sd[c.Scheme].(J)
			if d["in"] == "header" {
				h[d["name"].(string)] = []string{c.Token}
			} else {
				q.Set(d["name"].(string), c.Token)
			}
		}
	}
	_ = authUsed
	u := r.Path
	if len(q) > 0 {
		u += "?" + q.Encode()
	}
	return work.SrvReq{Op: "request", Method: r.Method, URL: u, Headers: h, Plan: &work.Plan{Status: 200}}, true
}

func slotOf(sd J, scheme string) string {
	switch k := sd[scheme].(J)["type"]; k {
	case "basic", "oauth2":
		return k.(string)
	}
	return scheme
}

func contains(l []string, x string) bool {
	for _, y := range l {
		if x == y {
			return true
		}
	}
	return false
}

func check(c Case) (o pbt.Outcome) {
	if err := swg.ValidateSpec(c.Spec); err != nil {
		o.Discard = true
		o.Class("discard:invalid-spec")
		return
	}
	prog := work.BuildServer(c.Spec, false)
	if !prog.Usable() {
		o.Class("unusable-program:" + prog.Stage)
		o.Discard = true
		return
	}
	doc, _ := specgen.Parse(c.Spec)
	sd := doc["securityDefinitions"].(J)
	ops := map[string]specgen.OpSite{}
	for _, op := range specgen.Ops(doc) {
		ops[op.Method+" "+op.Path] = op
	}
	var reqs []work.SrvReq
	var idx []int
	for i, r := range c.Reqs {
		hr, ok := toHarness(doc, r)
		if !ok {
			continue
		}
		reqs = append(reqs, hr)
		idx = append(idx, i)
	}
	resps, err := prog.Exec(reqs)
	if err != nil {
		o.Fail("C06|harness-crash", "the program built from the generated server died: %v", err)
		return
	}
	o.Evals = len(reqs)
	o.Sample = map[string]any{"operations": len(ops), "requests": len(reqs), "security": doc["security"], "definitions": sd}
	for k, resp := range resps {
		r := c.Reqs[idx[k]]
		op := ops[r.Method+" "+r.Path]
		if resp.Panic != "" {
			o.Fail("C06|panic", "generated server panicked: %s", resp.Panic)
			continue
		}
		alts, _ := effective(doc, op)
		reached := resp.Observed != nil && resp.Observed.Reached != ""
		// which alternatives are satisfied by the presented credentials
		valid := map[string]Cred{}
		anyInvalid := false
		for _, cr := range r.Creds {
			if cr.Valid {
				valid[cr.Scheme] = cr
			} else {
				anyInvalid = true
			}
		}
		hasEmptyAlt := false
		insufficient := false
		for _, alt := range alts {
			for scheme, scopes := range alt {
				if cr, present := valid[slotOf(sd, scheme)]; present && sd[scheme].(J)["type"] == "oauth2" {
					for _, s := range asList(scopes) {
						if !contains(cr.Scopes, s.(string)) {
							insufficient = true // a good token refused for lack of scope
						}
					}
				}
			}
		}
		var satisfied []J
		for _, alt := range alts {
			if len(alt) == 0 {
				hasEmptyAlt = true
				continue
			}
			ok := true
			for scheme, scopes := range alt {
				cr, present := valid[slotOf(sd, scheme)]
				if !present {
					ok = false
					break
				}
				if sd[scheme].(J)["type"] == "oauth2" {
					for _, s := range asList(scopes) {
						if !contains(cr.Scopes, s.(string)) {
							ok = false
							insufficient = true // a good token refused for lack of scope
						}
					}
				}
			}
			if ok {
				satisfied = append(satisfied, alt)
			}
		}
		shape := fmt.Sprintf("alts=%d", len(alts))
		for _, alt := range alts {
			if len(alt) > 1 {
				shape += "+AND"
				break
			}
		}
		if len(alts) > 1 {
			shape += "+OR"
		}
		credShape := fmt.Sprintf("valid=%d,invalid=%v", len(valid), anyInvalid)
		switch {
		case len(alts) == 0:
			o.Class("requirement:none")
			o.NT("none|" + credShape)
			if !reached {
				o.Fail("C06|open-operation-not-served", "operation without effective security requirement answered %d without running the handler\n  request: %s\n  security: global=%s op=%s", resp.Status, js(r), js(doc["security"]), js(op.Op["security"]))
			} else if resp.Observed.HasPrincipalArg && len(resp.Observed.AuthCalls) > 0 {
				o.Fail("C06|open-operation-authenticates", "operation without effective requirement ran authenticators %v", resp.Observed.AuthCalls)
			}
		case hasEmptyAlt:
			// anonymous alternative mixed with named ones (optional authentication): a
			// request without any bad credential satisfies the requirement and must be
			// served; when it also fully authenticates a named alternative the handler must
			// be able to see that principal. What bad credentials do is not specified.
			if anyInvalid || insufficient {
				o.Class("unspecified:anonymous-alternative+refused-credential")
				break
			}
			o.Class("requirement:optional-auth")
			o.NT(shape + "|optional-auth|" + credShape)
			if !reached {
				o.Fail("C06|optional-auth-not-served", "request without bad credentials to an operation with an anonymous alternative answered %d\n  request: %s\n  requirement: %s", resp.Status, js(r), js(alts))
				break
			}
			if len(satisfied) > 0 {
				var principal string
				_ = json.Unmarshal(resp.Observed.Principal, &principal)
				if !resp.Observed.HasPrincipalArg || !strings.HasPrefix(principal, "principal:") {
					o.Fail("C06|optional-auth-principal-lost", "request authenticating a named alternative of an optional-auth requirement reaches a handler that receives no principal (principal argument: %v, value %s)\n  request: %s\n  requirement: %s\n  auth calls: %v", resp.Observed.HasPrincipalArg, resp.Observed.Principal, js(r), js(alts), resp.Observed.AuthCalls)
				}
			}
		case len(satisfied) > 0:
			o.Class("requirement:satisfied")
			o.NT(shape + "|satisfied|" + credShape)
			if !reached {
				o.Fail("C06|satisfied-not-served|"+shape, "request satisfying an alternative of the requirement answered %d, handler not run\n  request: %s\n  effective requirement: %s\n  auth calls: %v\n  response: %s", resp.Status, js(r), js(alts), resp.Observed.AuthCalls, resp.RespBody)
				continue
			}
			// the principal handed over is one an authenticator of a satisfied alternative returned
			var principal string
			_ = json.Unmarshal(resp.Observed.Principal, &principal)
			okp := false
			for _, alt := range satisfied {
				for scheme := range alt {
					cr := valid[slotOf(sd, scheme)]
					who := cr.Token
					if sd[scheme].(J)["type"] == "basic" {
						who = "user-basic"
					}
					if strings.HasPrefix(principal, "principal:") && strings.HasSuffix(principal, ":"+who) {
						okp = true
					}
				}
			}
			if !resp.Observed.HasPrincipalArg {
				o.Fail("C06|no-principal-argument", "handler of a secured operation has no principal argument\n  request: %s\n  requirement: %s", js(r), js(alts))
			} else if !okp {
				o.Fail("C06|wrong-principal", "handler received principal %s, not one returned by an authenticator of a satisfied alternative\n  request: %s\n  requirement: %s\n  auth calls: %v", resp.Observed.Principal, js(r), js(alts), resp.Observed.AuthCalls)
			}
		default:
			o.Class("requirement:unsatisfied")
			o.NT(shape + "|unsatisfied|" + credShape)
			if reached {
				o.Fail("C06|unsatisfied-served|"+shape, "request satisfying no alternative reaches the handler\n  request: %s\n  effective requirement: %s\n  auth calls: %v\n  principal: %s", js(r), js(alts), resp.Observed.AuthCalls, resp.Observed.Principal)
			} else if resp.Status != 401 && resp.Status != 403 {
				o.Fail(fmt.Sprintf("C06|unsatisfied-status-%d", resp.Status), "request satisfying no alternative answered %d (expected 401/403)\n  request: %s\n  response: %s", resp.Status, js(r), resp.RespBody)
			}
		}
	}
	return
}

func js(v any) string {
	b, _ := json.Marshal(v)
	return string(b)
}

func TestProp(t *testing.T) {
	pbt.Main(t, pbt.Prop[Case]{
		ID:   "C06",
		Rule: "server programs: specs with 1-4 security definitions (basic, apiKey in header / query, oauth2 of every flow with three scopes), global security in {absent, [], list of 1-3 alternatives each naming 1-2 schemes with scope subsets} and per-operation security drawn from the same set, generated with `swagger generate server` and compiled with a reflection harness whose authenticators accept credentials by convention (token starting with 'good'; oauth2 token 'good:<scopes>' grants the scopes) and answer errors.New(401/403) otherwise; per operation 24 (quick) / 60 (thorough) credential sets (each scheme absent / valid / invalid, random granted scopes). Oracle: reference evaluator of the effective requirement (operation's own list if present, else global): handler reached <=> some alternative fully authenticated or the requirement is empty; otherwise 401/403 and handler not run; principal = the value returned by an authenticator of a satisfied alternative; open operations run no authenticator. Non-trivial: request with a definite verdict; distinct by (requirement shape, verdict, credential shape).",
		Assumptions: []string{
			"optional authentication (an anonymous alternative {} next to named ones): requests carrying a bad credential are unspecified; otherwise the request must be served and, when a named alternative is fully authenticated, the handler must receive a principal",
			"two tokens competing for the Authorization header cannot be presented together: the second bearer token travels as access_token, other combinations are skipped",
		},
		Gen:   gen,
		Check: check,
	})
}
