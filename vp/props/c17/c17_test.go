// The swagger binary is built from a module that declares go 1.21, where go/types does not produce
// types.Alias nodes; the in-process scanner is run under the same setting.
//
//go:debug gotypesalias=0
package c17

import (
	"encoding/json"
	"fmt"
	"os"
	"path/filepath"
	"regexp"
	"sort"
	"strings"
	"testing"
	"time"

	"github.com/go-openapi/spec"
	"github.com/go-swagger/go-swagger/codescan"
	"pgregory.net/rapid"

	"verif/internal/pbt"
	"verif/internal/refmodel"
	"verif/internal/specgen"
	"verif/internal/swg"
	"verif/internal/work"
)

type J = specgen.J
type A = specgen.A

// Expect is one fact the scanned document must contain: the JSON value at Path (a list of
// object keys / list selectors) equals Want. A selector "name=in:query/limit" picks the element of a
// parameter list with that location and name.
type Expect struct {
	Kind string `json:"kind"` // what annotation the fact comes from (for signatures)
	Path []string `json:"path"`
	Want any    `json:"want"`
	// Absent: the path must NOT exist (a constraint that no annotation declared)
	Absent bool `json:"absent,omitempty"`
}

type Case struct {
	Source  string          `json:"source"`            // api/api.go
	Input   json.RawMessage `json:"input,omitempty"`   // optional input spec (-i)
	Expects []Expect        `json:"expects"`
	Noise   bool            `json:"noise"`             // arbitrary comment text was injected: only totality is checked
}

func pick[T any](t *rapid.T, label string, xs []T) T { return specgen.Pick(t, label, xs) }
func chance(t *rapid.T, label string, pct int) bool  { return specgen.Uniform(t, label, 100) < pct }

type field struct {
	goName, jsonName, goType string
	swType, swFormat        string
	items                   *field // for slices
	lines                   []string // annotation lines
	facts                   map[string]any // swagger keyword -> value
	itemFacts               map[string]any
	required                bool
}

var scalarTypes = []struct{ goType, sw, format string }{
	{"string", "string", ""}, {"string", "string", ""}, {"int64", "integer", "int64"}, {"int32", "integer", "int32"}, {"float64", "number", "double"}, {"bool", "boolean", ""},
}

// validations draws annotation lines for a value of swagger type ty; prefix is "" or "items."
func validations(t *rapid.T, l, ty, prefix string, allowEnum bool) ([]string, map[string]any) {
	facts := map[string]any{}
	var lines []string
	add := func(line string, k string, v any) {
		lines = append(lines, "// "+prefix+line)
		facts[k] = v
	}
	switch ty {
	case "string":
		switch pick(t, l+"_sv", []string{"none", "len", "pattern", "enum", "len"}) {
		case "len":
			mn := rapid.IntRange(0, 3).Draw(t, l+"_minl")
			add(fmt.Sprintf("%s: %d", pick(t, l+"_minlk", []string{"min length", "minLength", "minimum length"}), mn), "minLength", float64(mn))
			if chance(t, l+"_hasmaxl", 60) {
				mx := mn + rapid.IntRange(1, 9).Draw(t, l+"_maxl")
				add(fmt.Sprintf("%s: %d", pick(t, l+"_maxlk", []string{"max length", "maxLength", "maximum length"}), mx), "maxLength", float64(mx))
			}
		case "pattern":
			p := pick(t, l+"_pat", []string{`^[a-z]+$`, `\w+`, `^[A-Z]{2,3}-\d+$`, `[^/]+`})
			add("pattern: "+p, "pattern", p)
		case "enum":
			if allowEnum {
				vals := pick(t, l+"_enum", [][]string{{"red", "green", "blue"}, {"a", "b"}, {"one"}})
				var e A
				for _, v := range vals {
					e = append(e, v)
				}
				add("enum: "+strings.Join(vals, ","), "enum", e)
			}
		}
	case "integer", "number":
		switch pick(t, l+"_nv", []string{"none", "range", "range", "multiple"}) {
		case "range":
			mn := rapid.IntRange(-5, 20).Draw(t, l+"_min")
			add(fmt.Sprintf("%s: %d", pick(t, l+"_mink", []string{"minimum", "min"}), mn), "minimum", float64(mn))
			if chance(t, l+"_hasmax", 60) {
				mx := mn + rapid.IntRange(1, 50).Draw(t, l+"_max")
				add(fmt.Sprintf("%s: %d", pick(t, l+"_maxk", []string{"maximum", "max"}), mx), "maximum", float64(mx))
			}
		case "multiple":
			m := pick(t, l+"_mul", []int{2, 3, 5, 10})
			add(fmt.Sprintf("multiple of: %d", m), "multipleOf", float64(m))
		}
	}
	return lines, facts
}

func arrayValidations(t *rapid.T, l string) ([]string, map[string]any) {
	facts := map[string]any{}
	var lines []string
	switch pick(t, l+"_av", []string{"none", "items", "items", "unique"}) {
	case "items":
		mn := rapid.IntRange(0, 3).Draw(t, l+"_mini")
		lines = append(lines, fmt.Sprintf("// %s: %d", pick(t, l+"_minik", []string{"min items", "minItems", "minimum items"}), mn))
		facts["minItems"] = float64(mn)
		if chance(t, l+"_hasmaxi", 60) {
			mx := mn + rapid.IntRange(1, 6).Draw(t, l+"_maxi")
			lines = append(lines, fmt.Sprintf("// %s: %d", pick(t, l+"_maxik", []string{"max items", "maxItems", "maximum items"}), mx))
			facts["maxItems"] = float64(mx)
		}
	case "unique":
		lines = append(lines, "// unique: true")
		facts["uniqueItems"] = true
	}
	return lines, facts
}

type gen struct {
	t   *rapid.T
	seq int
	sb  strings.Builder
	exp []Expect
}

func (g *gen) next(prefix string) string { g.seq++; return fmt.Sprintf("%s%d", prefix, g.seq) }

func (g *gen) expect(kind string, want any, path ...string) {
	g.exp = append(g.exp, Expect{Kind: kind, Path: path, Want: want})
}

func (g *gen) expectAbsent(kind string, path ...string) {
	g.exp = append(g.exp, Expect{Kind: kind, Path: path, Absent: true})
}

// simpleField draws a non-body field (parameter, header or model property).
func (g *gen) simpleField(l string, allowArray bool) field {
	f := field{goName: g.next("F"), facts: map[string]any{}}
	switch pick(g.t, l+"_jn", []string{"tag", "tag", "none"}) {
	case "tag":
		f.jsonName = strings.ToLower(f.goName) + pick(g.t, l+"_jsfx", []string{"", "_id", "-x", "Name"})
	default:
		f.jsonName = f.goName
	}
	if allowArray && chance(g.t, l+"_arr", 25) {
		it := pick(g.t, l+"_ity", scalarTypes[:5])
		f.goType, f.swType = "[]"+it.goType, "array"
		f.items = &field{swType: it.sw, swFormat: it.format}
		al, af := arrayValidations(g.t, l)
		f.lines, f.facts = al, af
		il, ifacts := validations(g.t, l+"_it", it.sw, "items.", true)
		f.lines = append(f.lines, il...)
		f.itemFacts = ifacts
		return f
	}
	st := pick(g.t, l+"_ty", scalarTypes)
	f.goType, f.swType, f.swFormat = st.goType, st.sw, st.format
	f.lines, f.facts = validations(g.t, l, st.sw, "", true)
	return f
}

func (f field) decl() string {
	tag := ""
	if f.jsonName != f.goName {
		tag = fmt.Sprintf(" `json:\"%s\"`", f.jsonName)
	}
	return fmt.Sprintf("%s %s%s", f.goName, f.goType, tag)
}

var methods = []string{"GET", "POST", "PUT", "DELETE", "PATCH"}

func genCase(t *rapid.T) Case {
	g := &gen{t: t}
	var c Case
	// --- meta
	title := "Scan test API"
	version := pick(t, "version", []string{"0.0.1", "1.2", "v3"})
	basePath := pick(t, "basepath", []string{"/v2", "/", "/api/x"})
	fmt.Fprintf(&g.sb, "// Package api %s\n//\n// the purpose of this application is to be scanned\n//\n", title)
	if chance(t, "tos", 40) {
		fmt.Fprintf(&g.sb, "// Terms Of Service:\n//\n// there are no TOS at this moment\n//\n")
		g.expect("meta", "there are no TOS at this moment", "info", "termsOfService")
	}
	schemes := pick(t, "schemes", [][]string{{"http"}, {"http", "https"}, {"https", "wss"}})
	fmt.Fprintf(&g.sb, "//\tSchemes: %s\n//\tHost: localhost\n//\tBasePath: %s\n//\tVersion: %s\n", strings.Join(schemes, ", "), basePath, version)
	if chance(t, "license", 50) {
		fmt.Fprintf(&g.sb, "//\tLicense: MIT http://opensource.org/licenses/MIT\n")
		g.expect("meta", "MIT", "info", "license", "name")
	}
	if chance(t, "contact", 50) {
		fmt.Fprintf(&g.sb, "//\tContact: John Doe<john.doe@example.com> http://john.doe.com\n")
		g.expect("meta", "john.doe@example.com", "info", "contact", "email")
	}
	fmt.Fprintf(&g.sb, "//\n//\tConsumes:\n//\t- application/json\n//\n//\tProduces:\n//\t- application/json\n//\n")
	withSecurity := chance(t, "metasec", 50)
	if chance(t, "metaext", 35) {
		g.sb.WriteString("//\tExtensions:\n//\tx-meta-value: value\n//\tx-meta-array:\n//\t  - value1\n//\t  - value2\n//\n")
		g.expect("meta-extensions", "value", "x-meta-value")
		g.expect("meta-extensions", A{"value1", "value2"}, "x-meta-array")
	}
	if chance(t, "infoext", 25) {
		g.sb.WriteString("//\tInfoExtensions:\n//\tx-info-value: value\n//\n")
		g.expect("meta-extensions", "value", "info", "x-info-value")
	}
	if withSecurity {
		g.sb.WriteString("//\tSecurity:\n//\t- api_key:\n//\n//\tSecurityDefinitions:\n//\tapi_key:\n//\t     type: apiKey\n//\t     name: KEY\n//\t     in: header\n//\toauth2:\n//\t    type: oauth2\n//\t    authorizationUrl: /oauth2/auth\n//\t    tokenUrl: /oauth2/token\n//\t    scopes:\n//\t      read: may read\n//\t      write: may write\n//\t    flow: accessCode\n//\n")
		g.expect("meta-security", "apiKey", "securityDefinitions", "api_key", "type")
		g.expect("meta-security", "KEY", "securityDefinitions", "api_key", "name")
		g.expect("meta-security", "header", "securityDefinitions", "api_key", "in")
		g.expect("meta-security", "oauth2", "securityDefinitions", "oauth2", "type")
		g.expect("meta-security", "accessCode", "securityDefinitions", "oauth2", "flow")
		g.expect("meta-security", "may write", "securityDefinitions", "oauth2", "scopes", "write")
		g.expect("meta-security", A{J{"api_key": A{}}}, "security")
	}
	g.sb.WriteString("// swagger:meta\npackage api\n\n")
	g.expect("meta", title, "info", "title")
	g.expect("meta", version, "info", "version")
	g.expect("meta", basePath, "basePath")
	g.expect("meta", "localhost", "host")
	var sch A
	for _, s := range schemes {
		sch = append(sch, s)
	}
	g.expect("meta", sch, "schemes")
	g.expect("meta", A{"application/json"}, "consumes")

	// --- models
	nm := rapid.IntRange(1, 3).Draw(t, "nmodels")
	var models []string
	for i := 0; i < nm; i++ {
		l := fmt.Sprintf("m%d", i)
		goName := g.next("Model")
		name := goName
		if chance(t, l+"_named", 40) {
			name = strings.ToLower(goName) + "Doc"
			fmt.Fprintf(&g.sb, "// %s is a model.\n//\n// swagger:model %s\ntype %s struct {\n", goName, name, goName)
		} else {
			fmt.Fprintf(&g.sb, "// %s is a model.\n//\n// swagger:model\ntype %s struct {\n", goName, goName)
		}
		nf := rapid.IntRange(1, 4).Draw(t, l+"_nf")
		var req A
		for k := 0; k < nf; k++ {
			f := g.simpleField(fmt.Sprintf("%s_f%d", l, k), true)
			fmt.Fprintf(&g.sb, "\t// %s of the model.\n\t//\n", f.goName)
			if chance(t, fmt.Sprintf("%s_f%d_req", l, k), 40) {
				fmt.Fprintf(&g.sb, "\t// required: true\n")
				req = append(req, f.jsonName)
			}
			if chance(t, fmt.Sprintf("%s_f%d_ro", l, k), 15) {
				fmt.Fprintf(&g.sb, "\t// read only: true\n")
				g.expect("model", true, "definitions", name, "properties", f.jsonName, "readOnly")
			}
			for _, ln := range f.lines {
				fmt.Fprintf(&g.sb, "\t%s\n", ln)
			}
			fmt.Fprintf(&g.sb, "\t%s\n", f.decl())
			g.expect("model", f.swType, "definitions", name, "properties", f.jsonName, "type")
			if f.swFormat != "" {
				g.expect("model", f.swFormat, "definitions", name, "properties", f.jsonName, "format")
			}
			for k2, v := range f.facts {
				g.expect("model-validation:"+k2, v, "definitions", name, "properties", f.jsonName, k2)
			}
			if f.items != nil {
				g.expect("model", f.items.swType, "definitions", name, "properties", f.jsonName, "items", "type")
				for k2, v := range f.itemFacts {
					g.expect("model-items-validation:"+k2, v, "definitions", name, "properties", f.jsonName, "items", k2)
				}
			}
		}
		// reference to an earlier model
		if len(models) > 0 && chance(t, l+"_ref", 50) {
			target := pick(t, l+"_reft", models)
			fn := g.next("Ref")
			fmt.Fprintf(&g.sb, "\t// %s points to another model.\n\t%s *%s `json:\"%s\"`\n", fn, fn, goNameOf(target), strings.ToLower(fn))
			g.expect("model-ref", "#/definitions/"+target, "definitions", name, "properties", strings.ToLower(fn), "$ref")
		}
		g.sb.WriteString("}\n\n")
		if len(req) > 0 {
			g.expect("model-required", req, "definitions", name, "required")
		}
		models = append(models, name)
		modelGo[name] = goName
	}

	// --- named string format, enum type, allOf composition
	if chance(t, "strfmt", 40) {
		g.sb.WriteString("// Stamp is a formatted string.\n//\n// swagger:strfmt date\ntype Stamp string\n\n// StampHolder is a model.\n//\n// swagger:model\ntype StampHolder struct {\n\t// When it happened.\n\tWhen Stamp `json:\"when\"`\n}\n\n")
		g.expect("strfmt", "string", "definitions", "StampHolder", "properties", "when", "type")
		g.expect("strfmt", "date", "definitions", "StampHolder", "properties", "when", "format")
		models = append(models, "StampHolder")
		modelGo["StampHolder"] = "StampHolder"
	}
	if chance(t, "enumtype", 40) {
		g.sb.WriteString("// Colour is an enumeration.\n//\n// swagger:enum Colour\ntype Colour string\n\nconst (\n\t// ColourRed is red.\n\tColourRed Colour = \"red\"\n\t// ColourGreen is green.\n\tColourGreen Colour = \"green\"\n)\n\n// Painted is a model.\n//\n// swagger:model\ntype Painted struct {\n\t// Paint of the thing.\n\tPaint Colour `json:\"paint\"`\n}\n\n")
		g.expect("enum-type", A{"red", "green"}, "definitions", "Painted", "properties", "paint", "enum")
		models = append(models, "Painted")
		modelGo["Painted"] = "Painted"
	}
	if len(models) > 0 && chance(t, "allof", 40) {
		base := models[0]
		fmt.Fprintf(&g.sb, "// Composed embeds another model.\n//\n// swagger:model\ntype Composed struct {\n\t// swagger:allOf\n\t%s\n\n\t// Extra of the composition.\n\t//\n\t// required: true\n\t// example: 12\n\t// default: 7\n\tExtra int32 `json:\"extra\"`\n}\n\n", goNameOf(base))
		g.expect("allOf", "#/definitions/"+base, "definitions", "Composed", "allOf", "0", "$ref")
		g.expect("allOf", "integer", "definitions", "Composed", "allOf", "1", "properties", "extra", "type")
		g.expect("allOf-default", float64(7), "definitions", "Composed", "allOf", "1", "properties", "extra", "default")
		g.expect("allOf-example", float64(12), "definitions", "Composed", "allOf", "1", "properties", "extra", "example")
		g.expect("allOf-required", A{"extra"}, "definitions", "Composed", "allOf", "1", "required")
	}

	// --- responses
	nr := rapid.IntRange(1, 3).Draw(t, "nresps")
	var resps []string
	for i := 0; i < nr; i++ {
		l := fmt.Sprintf("r%d", i)
		goName := g.next("Resp")
		name := strings.ToLower(goName[:1]) + goName[1:]
		fmt.Fprintf(&g.sb, "// %s is a response.\n//\n// swagger:response %s\ntype %s struct {\n", goName, name, goName)
		g.expect("response", goName+" is a response.", "responses", name, "description")
		if chance(t, l+"_hdr", 50) {
			h := g.simpleField(l+"_h", false)
			fmt.Fprintf(&g.sb, "\t// %s header.\n\t//\n\t// in: header\n", h.goName)
			for _, ln := range h.lines {
				fmt.Fprintf(&g.sb, "\t%s\n", ln)
			}
			fmt.Fprintf(&g.sb, "\t%s\n", h.decl())
			g.expect("response-header", h.swType, "responses", name, "headers", h.jsonName, "type")
			for k2, v := range h.facts {
				g.expect("response-header-validation:"+k2, v, "responses", name, "headers", h.jsonName, k2)
			}
		}
		switch pick(t, l+"_body", []string{"model", "model", "array", "none", "inline"}) {
		case "model":
			target := pick(t, l+"_bt", models)
			fmt.Fprintf(&g.sb, "\t// the payload\n\t//\n\t// in: body\n\tBody *%s `json:\"body\"`\n", goNameOf(target))
			g.expect("response-body", "#/definitions/"+target, "responses", name, "schema", "$ref")
		case "array":
			target := pick(t, l+"_bt", models)
			fmt.Fprintf(&g.sb, "\t// the payload\n\t//\n\t// in: body\n\tBody []%s `json:\"body\"`\n", goNameOf(target))
			g.expect("response-body", "array", "responses", name, "schema", "type")
			g.expect("response-body", "#/definitions/"+target, "responses", name, "schema", "items", "$ref")
		case "inline":
			fmt.Fprintf(&g.sb, "\t// the payload\n\t//\n\t// in: body\n\tBody struct {\n\t\t// Message is the message.\n\t\tMessage string `json:\"message\"`\n\t\t// Code is the code.\n\t\tCode int32 `json:\"code\"`\n\t}\n")
			g.expect("response-body", "string", "responses", name, "schema", "properties", "message", "type")
			g.expect("response-body", "integer", "responses", name, "schema", "properties", "code", "type")
		}
		g.sb.WriteString("}\n\n")
		resps = append(resps, name)
	}

	// --- routes + parameters
	nro := rapid.IntRange(1, 4).Draw(t, "nroutes")
	usedPaths := map[string]bool{}
	g.sb.WriteString("// Routes registers the routes.\nfunc Routes() {\n")
	var paramStructs strings.Builder
	for i := 0; i < nro; i++ {
		l := fmt.Sprintf("o%d", i)
		method := pick(t, l+"_method", methods)
		opid := g.next("op")
		seg := g.next("things")
		path := "/" + seg
		var pathParam string
		if chance(t, l+"_pp", 40) {
			pathParam = g.next("id")
			path += "/{" + pathParam + "}"
		}
		if usedPaths[method+path] {
			continue
		}
		usedPaths[method+path] = true
		lm := strings.ToLower(method)
		var tags []string
		if chance(t, l+"_tags", 70) {
			tags = pick(t, l+"_tagset", [][]string{{"pets"}, {"pets", "users"}, {"orders"}})
		}
		useOperation := chance(t, l+"_swop", 25)
		ann := "swagger:route"
		if useOperation {
			ann = "swagger:operation"
		}
		fmt.Fprintf(&g.sb, "\t// %s %s %s %s%s\n\t//\n", ann, method, path, strings.Join(append(tags, ""), " "), opid)
		summary := fmt.Sprintf("Summary of %s.", opid)
		fmt.Fprintf(&g.sb, "\t// %s\n\t//\n", summary)
		g.expect("route", opid, "paths", path, lm, "operationId")
		g.expect("route-summary", summary, "paths", path, lm, "summary")
		if len(tags) > 0 {
			var tg A
			for _, x := range tags {
				tg = append(tg, x)
			}
			g.expect("route-tags", tg, "paths", path, lm, "tags")
		}
		if chance(t, l+"_desc", 50) {
			fmt.Fprintf(&g.sb, "\t// This is the description of %s.\n\t// It spans two lines.\n\t//\n", opid)
			g.expect("route-description", fmt.Sprintf("This is the description of %s.\nIt spans two lines.", opid), "paths", path, lm, "description")
		}
		// responses of the operation
		codes := []string{"200"}
		if chance(t, l+"_c2", 60) {
			codes = append(codes, pick(t, l+"_code2", []string{"201", "400", "404", "422", "default"}))
		}
		if useOperation {
			g.sb.WriteString("\t// ---\n\t// produces:\n\t//   - application/json\n")
			g.expect("operation-yaml", A{"application/json"}, "paths", path, lm, "produces")
			if pathParam != "" {
				fmt.Fprintf(&g.sb, "\t// parameters:\n\t//   - name: %s\n\t//     in: path\n\t//     required: true\n\t//     type: string\n", pathParam)
				g.expect("operation-yaml", "string", "paths", path, lm, "parameters", "param=path/"+pathParam, "type")
			}
			g.sb.WriteString("\t// responses:\n")
			for _, code := range codes {
				r := pick(t, l+"_resp"+code, resps)
				fmt.Fprintf(&g.sb, "\t//   %q:\n\t//     \"$ref\": \"#/responses/%s\"\n", code, r)
				g.expect("operation-yaml", "#/responses/"+r, "paths", path, lm, "responses", code, "$ref")
			}
			g.sb.WriteString("\tmount()\n\n")
			continue
		}
		if chance(t, l+"_consumes", 40) {
			g.sb.WriteString("\t// Consumes:\n\t// - application/json\n\t// - application/xml\n\t//\n")
			g.expect("route-consumes", A{"application/json", "application/xml"}, "paths", path, lm, "consumes")
		}
		if chance(t, l+"_produces", 40) {
			g.sb.WriteString("\t// Produces:\n\t// - application/json\n\t//\n")
			g.expect("route-produces", A{"application/json"}, "paths", path, lm, "produces")
		}
		if chance(t, l+"_schemes", 30) {
			g.sb.WriteString("\t// Schemes: http, https\n\t//\n")
			g.expect("route-schemes", A{"http", "https"}, "paths", path, lm, "schemes")
		}
		if chance(t, l+"_depr", 15) {
			g.sb.WriteString("\t// Deprecated: true\n\t//\n")
			g.expect("route-deprecated", true, "paths", path, lm, "deprecated")
		}
		if withSecurity && chance(t, l+"_sec", 40) {
			g.sb.WriteString("\t// Security:\n\t// api_key:\n\t// oauth2: read, write\n\t//\n")
			// whether the listed schemes form one requirement (AND) or alternatives (OR) is not documented: each must appear
			g.expect("route-security", A{}, "paths", path, lm, "security", "any:api_key")
			g.expect("route-security", A{"read", "write"}, "paths", path, lm, "security", "any:oauth2")
		}
		if chance(t, l+"_ext", 30) {
			g.sb.WriteString("\t// Extensions:\n\t// x-some-flag: false\n\t// x-some-list:\n\t//   - item1\n\t//   - item2\n\t//\n")
			g.expect("route-extensions", A{"item1", "item2"}, "paths", path, lm, "x-some-list")
		}
		routeParams := map[string]bool{}
		if chance(t, l+"_rparams", 40) {
			// parameters declared in the route itself
			g.sb.WriteString("\t// Parameters:\n")
			nrp := rapid.IntRange(2, 4).Draw(t, l+"_nrp")
			for k := 0; k < nrp; k++ {
				rl := fmt.Sprintf("%s_rp%d", l, k)
				name := g.next("rp")
				routeParams[name] = true
				ty := pick(t, rl+"_ty", []string{"integer", "integer", "number", "string", "boolean"})
				sel := "param=query/" + name
				pad := pick(t, rl+"_pad", []string{" ", "        "})
				fmt.Fprintf(&g.sb, "\t// + name:%s%s\n\t//   in:%squery\n\t//   type:%s%s\n", pad, name, pad, pad, ty)
				g.expect("route-parameter", ty, "paths", path, lm, "parameters", sel, "type")
				declared := map[string]bool{}
				if chance(t, rl+"_desc", 50) {
					fmt.Fprintf(&g.sb, "\t//   description:%sthe %s parameter\n", pad, name)
					g.expect("route-parameter", "the "+name+" parameter", "paths", path, lm, "parameters", sel, "description")
				}
				if chance(t, rl+"_req", 40) {
					fmt.Fprintf(&g.sb, "\t//   required:%strue\n", pad)
					g.expect("route-parameter", true, "paths", path, lm, "parameters", sel, "required")
				}
				if ty == "integer" || ty == "number" {
					if chance(t, rl+"_min", 50) {
						mn := rapid.IntRange(0, 9).Draw(t, rl+"_minv")
						fmt.Fprintf(&g.sb, "\t//   min:%s%d\n", pad, mn)
						g.expect("route-parameter-validation:minimum", float64(mn), "paths", path, lm, "parameters", sel, "minimum")
						declared["minimum"] = true
					}
					if chance(t, rl+"_max", 50) {
						mx := rapid.IntRange(10, 99).Draw(t, rl+"_maxv")
						fmt.Fprintf(&g.sb, "\t//   max:%s%d\n", pad, mx)
						g.expect("route-parameter-validation:maximum", float64(mx), "paths", path, lm, "parameters", sel, "maximum")
						declared["maximum"] = true
					}
					if ty == "integer" && chance(t, rl+"_fmt", 40) {
						f := pick(t, rl+"_fmtv", []string{"int32", "int64"})
						fmt.Fprintf(&g.sb, "\t//   format:%s%s\n", pad, f)
						g.expect("route-parameter", f, "paths", path, lm, "parameters", sel, "format")
						declared["format"] = true
					}
					if chance(t, rl+"_def", 30) {
						fmt.Fprintf(&g.sb, "\t//   default:%s9\n", pad)
						declared["default"] = true
					}
				}
				if ty == "string" {
					if chance(t, rl+"_enum", 40) {
						fmt.Fprintf(&g.sb, "\t//   enum:%sred,green\n", pad)
						declared["enum"] = true
					}
					if chance(t, rl+"_sdef", 30) {
						fmt.Fprintf(&g.sb, "\t//   default:%sred\n", pad)
						declared["default"] = true
					}
				}
				if ty == "boolean" && chance(t, rl+"_bdef", 40) {
					fmt.Fprintf(&g.sb, "\t//   default:%strue\n", pad)
					declared["default"] = true
				}
				// nothing that this parameter did not declare
				for _, kw := range []string{"minimum", "maximum", "format", "default", "enum"} {
					if !declared[kw] {
						g.expectAbsent("route-parameter-undeclared:"+kw, "paths", path, lm, "parameters", sel, kw)
					}
				}
			}
			g.sb.WriteString("\t//\n")
		}
		g.sb.WriteString("\t// Responses:\n")
		for _, code := range codes {
			r := pick(t, l+"_resp"+code, resps)
			fmt.Fprintf(&g.sb, "\t// %s: %s\n", code, r)
			g.expect("route-responses", "#/responses/"+r, "paths", path, lm, "responses", code, "$ref")
		}
		g.sb.WriteString("\tmount()\n\n")
		// parameters struct for this route
		pname := g.next("Params")
		fmt.Fprintf(&paramStructs, "// %s are the parameters of %s.\n//\n// swagger:parameters %s\ntype %s struct {\n", pname, opid, opid, pname)
		if pathParam != "" {
			fmt.Fprintf(&paramStructs, "\t// the identifier\n\t//\n\t// in: path\n\t// required: true\n\tID string `json:\"%s\"`\n", pathParam)
			g.expect("parameter", "string", "paths", path, lm, "parameters", "param=path/"+pathParam, "type")
			g.expect("parameter-required", true, "paths", path, lm, "parameters", "param=path/"+pathParam, "required")
		}
		np := rapid.IntRange(0, 3).Draw(t, l+"_np")
		for k := 0; k < np; k++ {
			pl := fmt.Sprintf("%s_p%d", l, k)
			in := pick(t, pl+"_in", []string{"query", "query", "header"})
			f := g.simpleField(pl, in == "query")
			fmt.Fprintf(&paramStructs, "\t// %s is a parameter.\n\t//\n\t// in: %s\n", f.goName, in)
			sel := "param=" + in + "/" + f.jsonName
			if chance(t, pl+"_req", 35) {
				fmt.Fprintf(&paramStructs, "\t// required: true\n")
				g.expect("parameter-required", true, "paths", path, lm, "parameters", sel, "required")
			}
			if f.swType == "array" && chance(t, pl+"_cf", 50) {
				cf := pick(t, pl+"_cfv", []string{"csv", "pipes", "ssv", "tsv", "multi"})
				fmt.Fprintf(&paramStructs, "\t// collection format: %s\n", cf)
				g.expect("parameter-collection-format", cf, "paths", path, lm, "parameters", sel, "collectionFormat")
			}
			for _, ln := range f.lines {
				fmt.Fprintf(&paramStructs, "\t%s\n", ln)
			}
			fmt.Fprintf(&paramStructs, "\t%s\n", f.decl())
			g.expect("parameter", f.swType, "paths", path, lm, "parameters", sel, "type")
			if f.swFormat != "" {
				g.expect("parameter", f.swFormat, "paths", path, lm, "parameters", sel, "format")
			}
			for k2, v := range f.facts {
				g.expect("parameter-validation:"+k2, v, "paths", path, lm, "parameters", sel, k2)
			}
			if f.items != nil {
				g.expect("parameter", f.items.swType, "paths", path, lm, "parameters", sel, "items", "type")
				for k2, v := range f.itemFacts {
					g.expect("parameter-items-validation:"+k2, v, "paths", path, lm, "parameters", sel, "items", k2)
				}
			}
		}
		if method != "GET" && method != "DELETE" && chance(t, l+"_body", 60) {
			target := pick(t, l+"_bodyt", models)
			fmt.Fprintf(&paramStructs, "\t// the request body\n\t//\n\t// in: body\n\t// required: true\n\tBody *%s `json:\"body\"`\n", goNameOf(target))
			g.expect("parameter-body", "#/definitions/"+target, "paths", path, lm, "parameters", "param=body/body", "schema", "$ref")
			g.expect("parameter-required", true, "paths", path, lm, "parameters", "param=body/body", "required")
		}
		paramStructs.WriteString("}\n\n")
	}
	g.sb.WriteString("}\n\nfunc mount() {}\n\n")
	g.sb.WriteString(paramStructs.String())
	c.Source = g.sb.String()
	c.Expects = g.exp

	// --- optional input spec
	if chance(t, "input", 35) {
		in := J{"swagger": "2.0", "info": J{"title": "input title", "version": "9.9", "description": "from the input spec"},
			"paths":       J{"/from-input": J{"get": J{"operationId": "fromInput", "responses": J{"200": J{"description": "ok"}}}}},
			"definitions": J{"FromInput": J{"type": "object", "properties": J{"x": J{"type": "string"}}}},
		}
		c.Input = specgen.JSONBytes(in)
		c.Expects = append(c.Expects,
			Expect{Kind: "input-merge", Path: []string{"paths", "/from-input", "get", "operationId"}, Want: "fromInput"},
			Expect{Kind: "input-merge", Path: []string{"definitions", "FromInput", "properties", "x", "type"}, Want: "string"},
		)
	}

	// --- noise: arbitrary comment text
	if chance(t, "noise", 30) {
		c.Noise = true
		c.Source = injectNoise(t, c.Source)
	}
	return c
}

var modelGo = map[string]string{}

func goNameOf(model string) string {
	if g, ok := modelGo[model]; ok {
		return g
	}
	return model
}

var noisePool = []string{
	"swagger:route", "swagger:route GET", "swagger:route GET /x", "swagger:operation POST /y tag", "swagger:parameters", "swagger:response", "swagger:model", "swagger:meta", "swagger:allOf", "swagger:strfmt", "swagger:strfmt date", "swagger:enum", "swagger:ignore", "swagger:discriminator", "swagger:name", "swagger:type", "swagger:file", "swagger:default",
	"Responses:", "responses:", "  200: ", "200:", "default:", "Parameters:", "+ name: x", "  in: query", "in:", "in: body", "in: nowhere", "required:", "required: maybe", "minimum:", "minimum: abc", "maximum: 1e999", "min length: -1", "pattern: [", "enum:", "enum: ,,,", "enum: [1,2", "default: {", "example: [[[", "items.", "items.items.items.minimum: 3", "collection format:", "unique: yes",
	"Consumes:", "Produces:", "- ", "-", "Schemes:", "Schemes: ,", "Security:", "api_key:", "oauth: read, write", "Extensions:", "x-flag: true", "  x-list:", "    - a", "---", "--- ", "...", "Deprecated: true", "Version:", "Host:", "BasePath:", "License:", "Contact:", "Terms Of Service:", "InfoExtensions:", "TOS:", "SecurityDefinitions:", "  basic:", "    type: basic",
	"\t", "  ", "", "*/", "/*", "//", "{{", "}}", "%s %d", "\\", "\"", "'", "`", "é", "名前", "\u2028", "\u00a0", "\ufeff", strings.Repeat("a", 300), ":", "::", ": :", "key: value: other", "- - -", "? ", "&a *a", "!!binary x", "|", ">",
}

// injectNoise inserts comment lines made of arbitrary text at random line positions (before lines that start a
// comment or a declaration), keeping the program compilable.
func injectNoise(t *rapid.T, src string) string {
	lines := strings.Split(src, "\n")
	n := rapid.IntRange(1, 12).Draw(t, "noise_n")
	for i := 0; i < n; i++ {
		l := fmt.Sprintf("noise%d", i)
		pos := specgen.Uniform(t, l+"_pos", len(lines))
		// never split the package clause from its doc comment in a way that makes the file invalid: comments are fine anywhere between lines
		indent := ""
		if strings.HasPrefix(lines[pos], "\t") {
			indent = "\t"
		}
		var parts []string
		for k := 0; k < rapid.IntRange(1, 3).Draw(t, l+"_np"); k++ {
			parts = append(parts, pick(t, fmt.Sprintf("%s_p%d", l, k), noisePool))
		}
		text := strings.Join(parts, pick(t, l+"_sep", []string{" ", "", ": ", "\t"}))
		text = strings.NewReplacer("\n", " ", "\r", " ").Replace(text)
		if strings.Contains(text, "*/") || strings.Contains(text, "/*") {
			text = strings.NewReplacer("*/", "* /", "/*", "/ *").Replace(text)
		}
		nl := indent + "// " + text
		lines = append(lines[:pos], append([]string{nl}, lines[pos:]...)...)
	}
	return strings.Join(lines, "\n")
}

// ---------------------------------------------------------------------------

// lookup follows path in the scanned document.
func lookup(doc any, path []string) (any, bool, string) {
	cur := doc
	for i, p := range path {
		switch x := cur.(type) {
		case J:
			if strings.HasPrefix(p, "param=") {
				return nil, false, "not-a-list@" + strings.Join(path[:i], "/")
			}
			v, ok := x[p]
			if !ok {
				return nil, false, p
			}
			cur = v
		case A:
			if strings.HasPrefix(p, "any:") {
				key := strings.TrimPrefix(p, "any:")
				var found any
				ok := false
				for _, e := range x {
					if ej, isObj := e.(J); isObj && !ok {
						if v, has := ej[key]; has {
							found, ok = v, true
						}
					}
				}
				if !ok {
					return nil, false, "list-member"
				}
				if found == nil {
					found = A{}
				}
				cur = found
				continue
			}
			if !strings.HasPrefix(p, "param=") {
				var idx int
				if _, err := fmt.Sscanf(p, "%d", &idx); err != nil || idx < 0 || idx >= len(x) {
					return nil, false, "list-index"
				}
				cur = x[idx]
				continue
			}
			sel := strings.SplitN(strings.TrimPrefix(p, "param="), "/", 2)
			var found any
			for _, e := range x {
				if ej, ok := e.(J); ok && ej["in"] == sel[0] && ej["name"] == sel[1] {
					found = ej
				}
			}
			if found == nil {
				return nil, false, "parameter"
			}
			cur = found
		default:
			return nil, false, p
		}
	}
	return cur, true, ""
}

var reNum = regexp.MustCompile(`\d+`)

func errClass(s string) string {
	s = regexp.MustCompile("\"[^\"]*\"|`[^`]*`").ReplaceAllString(s, "_")
	s = regexp.MustCompile(`(Model|Resp|Params|op|things|id|F|Ref)\d+\w*`).ReplaceAllString(s, "X")
	s = reNum.ReplaceAllString(s, "N")
	if len(s) > 100 {
		s = s[:100]
	}
	return s
}

func check(c Case) (o pbt.Outcome) {
	h := fmt.Sprintf("%x", hash(c.Source))
	dir := filepath.Join(work.Scratch(), "c17-"+h, "verifscan")
	_ = os.RemoveAll(filepath.Dir(dir))
	defer os.RemoveAll(filepath.Dir(dir))
	_ = os.MkdirAll(filepath.Join(dir, "api"), 0o755)
	_ = os.WriteFile(filepath.Join(dir, "go.mod"), []byte("module verifscan\n\ngo 1.21\n"), 0o644)
	_ = os.WriteFile(filepath.Join(dir, "api", "api.go"), []byte(c.Source), 0o644)
	if b := work.Run(dir, 5*time.Minute, nil, "go", "vet", "./api"); !b.OK() && strings.Contains(b.Out, "api.go") {
		o.Discard = true
		o.Class("discard:program-does-not-compile")
		if os.Getenv("VERIF_C17_DEBUG") != "" {
			fmt.Fprintln(os.Stderr, "BUILD-FAIL:", b.Out)
		}
		return
	}
	opts := &codescan.Options{Packages: []string{"./api"}, WorkDir: dir, ScanModels: true}
	if len(c.Input) > 0 {
		var in spec.Swagger
		if err := json.Unmarshal(c.Input, &in); err == nil {
			opts.InputSpec = &in
		}
		o.Class("with-input-spec")
	}
	var sw *spec.Swagger
	var err error
	panicked, pmsg, stack := pbt.Recover(func() { sw, err = codescan.Run(opts) })
	o.Evals = 1
	mode := "grammar"
	if c.Noise {
		mode = "noise"
	}
	o.Class("mode:" + mode)
	if panicked {
		o.Fail("C17|scan-panic|"+pbt.TopFrame(stack, "codescan"), "generate spec panicked (%s): %s\n%s", mode, pmsg, tail(string(stack), 1800))
		return
	}
	if err != nil {
		o.Class("scan-error:" + mode)
		if !c.Noise {
			// a program that follows the documented grammar: a diagnostic is allowed by the property, but none is expected here
			o.Fail("C17|unexpected-diagnostic|"+errClass(err.Error()), "generate spec refused a program that follows the documented annotation grammar: %v", err)
		} else {
			o.NT("noise|diagnostic")
		}
		return
	}
	if c.Noise {
		o.NT("noise|document")
		return
	}
	raw, _ := json.Marshal(sw)
	doc, _ := specgen.Parse(raw)
	// validity
	if verr := swg.ValidateSpec(raw); verr != nil {
		o.Fail("C17|invalid-document|"+errClass(firstLine(verr.Error())), "the scanned document does not pass Swagger 2.0 validation: %v", verr)
	}
	// faithfulness
	seen := map[string]bool{}
	kinds := map[string]bool{}
	for _, e := range c.Expects {
		kinds[e.Kind] = true
		got, ok, missing := lookup(doc, e.Path)
		var sig, msg string
		if e.Absent {
			if ok {
				sig = "C17|undeclared|" + e.Kind
				msg = fmt.Sprintf("no annotation declares %s, the document has %v there", strings.Join(e.Path, " / "), got)
				if !seen[sig] {
					seen[sig] = true
					o.Fail(sig, "%s", msg)
				}
			}
			continue
		}
		switch {
		case !ok:
			sig = "C17|missing|" + e.Kind + "|" + missingClass(missing, e.Path)
			msg = fmt.Sprintf("declared by a %s annotation but absent from the document: %s (stopped at %q)", e.Kind, strings.Join(e.Path, " / "), missing)
		case !refmodel.JSONEqual(norm(got), norm(e.Want)):
			sig = "C17|differs|" + e.Kind + "|" + e.Path[len(e.Path)-1]
			msg = fmt.Sprintf("%s: declared %v, document has %v", strings.Join(e.Path, " / "), e.Want, got)
		default:
			continue
		}
		if !seen[sig] {
			seen[sig] = true
			o.Fail(sig, "%s", msg)
		}
	}
	ks := make([]string, 0, len(kinds))
	for k := range kinds {
		ks = append(ks, strings.SplitN(k, ":", 2)[0])
	}
	sort.Strings(ks)
	o.NT("grammar|" + strings.Join(uniq(ks), ","))
	o.Sample = map[string]any{"expects": len(c.Expects), "input": len(c.Input) > 0}
	return
}

func uniq(xs []string) []string {
	var out []string
	for i, x := range xs {
		if i == 0 || x != xs[i-1] {
			out = append(out, x)
		}
	}
	return out
}

func missingClass(missing string, path []string) string {
	last := path[len(path)-1]
	if missing == last {
		return "keyword:" + last
	}
	switch {
	case missing == "parameter":
		return "parameter"
	case len(path) > 0 && path[0] == "paths" && len(path) > 2 && (missing == path[1] || missing == path[2]):
		return "operation"
	case path[0] == "definitions" && missing == path[1]:
		return "definition"
	case path[0] == "responses" && missing == path[1]:
		return "response"
	}
	return "container:" + reNum.ReplaceAllString(missing, "N")
}

// norm makes numbers comparable (json.Number / float64 / int).
func norm(v any) any {
	b, _ := json.Marshal(v)
	var out any
	_ = json.Unmarshal(b, &out)
	return out
}

func firstLine(s string) string {
	for _, l := range strings.Split(s, "\n") {
		if strings.TrimSpace(l) != "" {
			return l
		}
	}
	return s
}

func tail(s string, n int) string {
	if len(s) > n {
		return "…" + s[len(s)-n:]
	}
	return s
}

func hash(s string) uint64 {
	var h uint64 = 1469598103934665603
	for i := 0; i < len(s); i++ {
		h ^= uint64(s[i])
		h *= 1099511628211
	}
	return h
}

func theProp() pbt.Prop[Case] {
	return pbt.Prop[Case]{
		ID:   "C17",
		Rule: "generated Go packages annotated with the documented grammar: swagger:meta (title, TOS, schemes, host, basePath, version, license, contact, consumes, produces), 1-3 swagger:model structs (named or not; scalar and array fields with required / read only / minimum / maximum / multiple of / min-max length / pattern / enum / min-max items / unique, items.* validations, references to other models), 1-3 swagger:response structs (headers with validations; body = model, array of models, inline struct or none), 1-4 routes as swagger:route (tags, summary, description, Consumes / Produces / Schemes / Deprecated / Responses sections) or swagger:operation with a YAML body, each route with a swagger:parameters struct (path, query, header parameters with validations and collection format, body parameter); in 35% of the cases an input spec to merge into; in 30% arbitrary comment lines (annotation fragments, section headers, YAML punctuation, control and non-ASCII characters) are inserted at random positions. The program is scanned in-process by codescan.Run. Oracle, grammar mode: no panic, no error, validate.Spec passes, and every declared fact (one per annotation line) is found at its place in the document with the declared value. Noise mode: no panic. Non-trivial: scan returned; distinct by set of annotation kinds / noise outcome.",
		Assumptions: []string{
			"generated programs only use annotation forms shown in docs/reference/annotations and the fixtures; alternative spellings of one keyword (min length / minLength / minimum length) are drawn at random",
			"in noise mode the injected text may legitimately change or invalidate the document, so only totality is checked",
		},
		Gen:   genCase,
		Check: check,
	}
}

func TestProp(t *testing.T) { pbt.Main(t, theProp()) }

// FuzzProp is the native, coverage-guided entry (thorough tier).
func FuzzProp(f *testing.F) { pbt.Fuzz(f, theProp()) }

