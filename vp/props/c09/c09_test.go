package c09

import (
	"bytes"
	"encoding/json"
	"fmt"
	"go/ast"
	"go/parser"
	"go/printer"
	"go/token"
	"os"
	"path/filepath"
	"regexp"
	"sort"
	"strconv"
	"strings"
	"testing"

	"pgregory.net/rapid"

	"verif/internal/pbt"
	"verif/internal/specgen"
	"verif/internal/swg"
	"verif/internal/work"
)

type J = specgen.J
type A = specgen.A

// Site is one free-text position of the document that received hostile text.
type Site struct {
	Index int    `json:"index"`
	Kind  string `json:"kind"` // e.g. operation.summary
	Path  string `json:"path"`
	Text  string `json:"text"`
	Shape string `json:"shape"` // how the text tries to leave its comment / literal
}

type Case struct {
	Neutral json.RawMessage `json:"neutral"`
	Hostile json.RawMessage `json:"hostile"`
	Sites   []Site          `json:"sites"`
	Targets []string        `json:"targets"` // server, client, model, cli
	Opts    []string        `json:"opts"`
	Build   bool            `json:"build"`
}

func chance(t *rapid.T, label string, pct int) bool {
	return rapid.IntRange(1, 100).Draw(t, label) <= pct
}

var lineSeps = []string{"\n", "\n", "\n", "\r\n", "\r\n", "\r\n", "\r", "\n\r", "\u2028", "\u0085", "\v", "\n\n"}

// payloads are valid Go in one syntactic context each; %d is the site index, so
// that leaked code names the site it came from.
var payloads = map[string]string{
	"decl":  "var Injected%d = 1",
	"func":  "func Injected%d() {}",
	"field": "Injected%d int",
	"stmt":  "println(\"Injected%d\")",
	"type":  "type Injected%d struct{}",
}

var payloadKinds = []string{"decl", "decl", "func", "field", "stmt", "type"}

// hostile builds a text that tries to terminate the comment or literal it is rendered in.
var shapes = []string{
	"comment-combo", "comment-combo", "comment-combo", "comment-combo", "comment-combo", "comment-combo", "comment-combo", "comment-combo", "comment-combo", "comment-combo", "comment-combo", "comment-combo",
	"newline", "newline", "mixed-newlines", "mixed-newlines", "block-close", "block-close", "block-close-newline", "backtick", "backtick-paren", "quote", "quote-plus",
	"trailing-backslash", "backslash-n", "tag-break", "line-comment-open", "block-open", "template", "printf", "nul", "html", "long-line",
}

func hostile(t *rapid.T, label string, idx int, shape string) (string, string) {
	pk := specgen.Pick(t, label+"_pk", payloadKinds)
	pay := fmt.Sprintf(payloads[pk], idx)
	sep := func(k string) string { return specgen.Pick(t, label+"_sep"+k, lineSeps) }
	var s string
	switch shape {
	case "comment-combo":
		// leaves a block comment through its terminator and a line comment through a line break; each leak re-opens a comment that swallows the rest
		pk2 := specgen.Pick(t, label+"_pk2", payloadKinds)
		s = "text */ " + pay + " /* mid" + sep("a") + "second line" + sep("b") + strings.Replace(fmt.Sprintf(payloads[pk2], idx), "Injected", "InjectedL", 1) + " // tail" + sep("c") + "end"
	case "newline":
		s = "first line" + sep("a") + pay + sep("b") + "last"
	case "mixed-newlines":
		s = "first line" + sep("a") + "second line" + sep("b") + pay + sep("c")
		if chance(t, label+"_more", 50) {
			s += "more" + sep("d") + pay
		}
	case "block-close":
		s = "text */ " + pay + " /* more"
	case "block-close-newline":
		s = "text */" + sep("a") + pay + sep("b") + "/* more"
	case "backtick":
		s = "text ` + \"x\" + `" + sep("a") + "`" + sep("b") + pay + sep("c") + "var _ = `"
	case "backtick-paren":
		s = "text `)" + sep("a") + pay + sep("b") + "var _ = []byte(`"
	case "quote":
		s = "text \"" + sep("a") + pay + sep("b") + "var _ = \""
	case "quote-plus":
		s = "text \" + os.Getenv(\"HOME\") + \""
	case "trailing-backslash":
		s = "text ending in a backslash \\"
	case "backslash-n":
		s = "text\\n" + pay + "\\nmore \\\" \\` \\x00 \\u2028 \\q"
	case "tag-break":
		s = "text\" json:\"Injected" + strconv.Itoa(idx) + "\" x:\"`" + sep("a") + pay
	case "line-comment-open":
		s = "// " + pay + sep("a") + pay
	case "block-open":
		s = "text /* never closed" + sep("a") + pay
	case "template":
		s = "{{ .Name }} {{ define \"x\" }}" + pay + "{{ end }} {{/* c */}} {{ template \"docstring\" . }}"
	case "printf":
		s = "100% %s %d %v %!q(MISSING) %[1]d %*d" + sep("a") + pay
	case "nul":
		s = "text\x00" + pay + "\x07\x1b[0m\x7f\ufeff"
	case "html":
		s = "<script>alert(1)</script> &amp; <!-- " + pay + " -->"
	case "long-line":
		s = strings.Repeat("word ", 60) + sep("a") + pay
	}
	return s, shape + ":" + pk
}

// hostile regular expressions (valid RE2) and host names (valid per the Swagger schema)
var hostilePatterns = []string{"^[a-z`]+$", "^a\"b*$", "^x*/y$", "^\\w+\\\\$", "^[^\\n]*`\\)$", "^(a|b\"`)+$"}
var hostileHosts = []string{"exa`mple.com", "exa\"mple.com", "a*b.example.com", "exa'mple.com:8080", "x`)+(`y"}

type siteRef struct {
	kind, path string
	set        func(string)
	constrained string // "", "pattern", "host", "basepath", "version"
}

var textKeys = map[string]bool{"title": true, "description": true, "summary": true, "termsOfService": true}

// sites lists the free-text positions of doc (deterministic order).
func sites(doc J) []siteRef {
	var out []siteRef
	var rec func(v any, path string, ctx string)
	rec = func(v any, path, ctx string) {
		switch x := v.(type) {
		case J:
			for _, k := range work.SortedKeys(x) {
				k := k
				child := x[k]
				p := path + "/" + k
				// names, not text: keys below these maps are spec names
				if ctx == "names" {
					rec(child, p, nameCtx(path, k))
					continue
				}
				if s, ok := child.(string); ok {
					holder := x
					switch {
					case textKeys[k]:
						out = append(out, siteRef{kind: ctx + "." + k, path: p, set: func(v string) { holder[k] = v }})
					case k == "name" && (ctx == "contact" || ctx == "license"):
						out = append(out, siteRef{kind: ctx + ".name", path: p, set: func(v string) { holder[k] = v }})
					case k == "version" && ctx == "info":
						out = append(out, siteRef{kind: "info.version", path: p, set: func(v string) { holder[k] = v }})
					case k == "host" && ctx == "root":
						out = append(out, siteRef{kind: "host", path: p, set: func(v string) { holder[k] = v }, constrained: "host"})
					case k == "basePath" && ctx == "root":
						out = append(out, siteRef{kind: "basePath", path: p, set: func(v string) { holder[k] = "/" + v }})
					case k == "pattern":
						out = append(out, siteRef{kind: ctx + ".pattern", path: p, set: func(v string) { holder[k] = v }, constrained: "pattern"})
					case k == "example":
						out = append(out, siteRef{kind: ctx + ".example", path: p, set: func(v string) { holder[k] = v }})
					case k == "default" && holder["type"] == "string" && unconstrainedString(holder):
						out = append(out, siteRef{kind: ctx + ".default", path: p, set: func(v string) { holder[k] = v }})
					}
					_ = s
					continue
				}
				rec(child, p, childCtx(ctx, k))
			}
		case A:
			for i, e := range x {
				rec(e, fmt.Sprintf("%s/%d", path, i), ctx)
			}
		}
	}
	rec(doc, "", "root")
	return out
}

func unconstrainedString(s J) bool {
	for _, k := range []string{"enum", "format", "pattern", "minLength", "maxLength"} {
		if _, has := s[k]; has {
			return false
		}
	}
	return true
}

// childCtx names the kind of object reached through key k.
func childCtx(ctx, k string) string {
	switch k {
	case "info", "contact", "license", "externalDocs":
		return k
	case "paths", "definitions", "properties", "responses", "headers", "securityDefinitions", "scopes", "parameters_map":
		return "names"
	case "tags":
		if ctx == "root" {
			return "tag"
		}
		return ctx
	case "parameters":
		return "parameter"
	case "schema", "items", "additionalProperties", "allOf":
		if ctx == "parameter" || ctx == "response" || ctx == "header" {
			return ctx + "-schema"
		}
		return ctx
	case "get", "put", "post", "delete", "options", "head", "patch":
		return "operation"
	}
	return ctx
}

// nameCtx: context of the value stored under a spec-name key.
func nameCtx(parentPath, key string) string {
	switch {
	case strings.HasSuffix(parentPath, "/paths"):
		return "path-item"
	case strings.HasSuffix(parentPath, "/definitions"):
		return "definition"
	case strings.HasSuffix(parentPath, "/properties"):
		return "property"
	case strings.HasSuffix(parentPath, "/responses"):
		return "response"
	case strings.HasSuffix(parentPath, "/headers"):
		return "header"
	case strings.HasSuffix(parentPath, "/securityDefinitions"):
		return "security-scheme"
	case strings.HasSuffix(parentPath, "/scopes"):
		return "scope"
	}
	return "names"
}

func gen(t *rapid.T) Case {
	formats := []string{"date", "date-time", "uuid", "email", "byte", "password", "uri"}
	cfg := &specgen.SpecCfg{
		Schema:  specgen.Opts{MaxDepth: 2, AddlProps: true, Formats: formats, Descr: true, Defaults: true, Examples: true},
		Simple:  specgen.SimpleOpts{Defaults: true, MaxDepth: 2, Formats: formats},
		MinDefs: 1, MaxDefs: 3, MinPaths: 1, MaxPaths: 3, MaxParams: 3, AcyclicRefs: true,
		SharedParams: true, FormData: true, Body: true, UniqueParamNames: true,
		RespHeaders: true, DefaultResponse: true, Tags: true, Meta: true, Security: true, Deprecated: true,
		Methods: []string{"get", "put", "post", "delete", "patch"},
	}
	doc := specgen.Spec(t, cfg)
	// make sure every kind of free-text holder exists now and then
	info := doc["info"].(J)
	if chance(t, "tos", 50) {
		info["termsOfService"] = "terms"
	}
	if chance(t, "contact", 50) {
		info["contact"] = J{"name": "the contact"}
	}
	if chance(t, "license", 50) {
		info["license"] = J{"name": "the license"}
	}
	if chance(t, "extdocs", 50) {
		doc["externalDocs"] = J{"description": "find more", "url": "http://example.com/docs"}
	}
	if chance(t, "hostbase", 60) {
		doc["host"] = "example.com"
		doc["basePath"] = "/base"
	}
	for i, op := range specgen.Ops(doc) {
		if chance(t, fmt.Sprintf("op%d_ext", i), 30) {
			op.Op["externalDocs"] = J{"description": "op docs", "url": "http://example.com/op"}
		}
		if _, ok := op.Op["summary"]; !ok && chance(t, fmt.Sprintf("op%d_sum", i), 60) {
			op.Op["summary"] = "a summary"
		}
		if _, ok := op.Op["description"]; !ok && chance(t, fmt.Sprintf("op%d_desc", i), 60) {
			op.Op["description"] = "a description"
		}
	}
	if sd, ok := doc["securityDefinitions"].(J); ok {
		for _, k := range work.SortedKeys(sd) {
			sd[k].(J)["description"] = "how to authenticate"
		}
	}
	if tags, ok := doc["tags"].(A); ok {
		for _, tg := range tags {
			tg.(J)["externalDocs"] = J{"description": "tag docs", "url": "http://example.com/tag"}
		}
	}
	// string schemas get titles
	for i, s := range specgen.SchemaSites(doc, false) {
		if chance(t, fmt.Sprintf("title%d", i), 25) {
			s.S["title"] = "a title"
		}
	}
	// every free-text position holds non-empty neutral text (an empty default or description is a different spec, not different text)
	for _, s := range sites(doc) {
		if s.constrained == "" {
			s.set("neutral text")
		}
	}
	var c Case
	c.Neutral = specgen.JSONBytes(doc)
	h := specgen.CloneJ(doc)
	all := sites(h)
	if len(all) == 0 {
		c.Hostile = c.Neutral
		return c
	}
	// hostile text goes to one focus kind (all its sites) plus a random sample of the others
	kinds := map[string]bool{}
	for _, s := range all {
		kinds[s.kind] = true
	}
	focus := specgen.Pick(t, "focus", work.SortedKeys(kinds))
	pct := specgen.Pick(t, "others", []int{0, 0, 30, 100})
	// one way of leaving the comment / literal per case: a shape the generator refuses does not mask the others
	shape := specgen.Pick(t, "shape", shapes)
	for i, s := range all {
		l := fmt.Sprintf("site%d", i)
		if s.kind != focus && !chance(t, l+"_on", pct) {
			continue
		}
		var text string
		shape := shape
		switch s.constrained {
		case "pattern":
			text, shape = rapid.SampledFrom(hostilePatterns).Draw(t, l+"_pat"), "regex"
		case "host":
			text, shape = rapid.SampledFrom(hostileHosts).Draw(t, l+"_host"), "host"
		default:
			text, shape = hostile(t, l, i, shape)
		}
		s.set(text)
		c.Sites = append(c.Sites, Site{Index: i, Kind: s.kind, Path: s.path, Text: text, Shape: shape})
	}
	c.Hostile = specgen.JSONBytes(h)
	c.Targets = specgen.Pick(t, "targets", [][]string{{"server", "client"}, {"server", "client"}, {"server", "client"}, {"server", "client"}, {"server", "client"}, {"server", "client"}, {"cli"}, {"cli"}, {"model"}, {"server"}})
	if chance(t, "structtags", 25) {
		c.Opts = append(c.Opts, "--struct-tags=description", "--struct-tags=example")
	}
	if chance(t, "skiptag", 20) && c.Targets[0] != "model" {
		c.Opts = append(c.Opts, "--skip-tag-packages")
	}
	c.Build = specgen.Uniform(t, "build", 100) < 15
	return c
}

// ---------------------------------------------------------------------------

// skeleton prints a Go file with comments dropped and string / char literal values erased
// (import paths are kept).
func skeleton(path string) (string, error) {
	fset := token.NewFileSet()
	f, err := parser.ParseFile(fset, path, nil, parser.SkipObjectResolution)
	if err != nil {
		return "", err
	}
	imports := map[*ast.BasicLit]bool{}
	for _, im := range f.Imports {
		imports[im.Path] = true
	}
	ast.Inspect(f, func(n ast.Node) bool {
		if bl, ok := n.(*ast.BasicLit); ok && !imports[bl] && (bl.Kind == token.STRING || bl.Kind == token.CHAR) {
			bl.Value = `"…"`
		}
		return true
	})
	f.Comments = nil
	f.Doc = nil
	ast.Inspect(f, func(n ast.Node) bool {
		switch x := n.(type) {
		case *ast.GenDecl:
			x.Doc = nil
		case *ast.FuncDecl:
			x.Doc = nil
		case *ast.Field:
			x.Doc, x.Comment = nil, nil
		case *ast.TypeSpec:
			x.Doc, x.Comment = nil, nil
		case *ast.ValueSpec:
			x.Doc, x.Comment = nil, nil
		case *ast.ImportSpec:
			x.Doc, x.Comment = nil, nil
		}
		return true
	})
	var buf bytes.Buffer
	if err := (&printer.Config{Mode: printer.RawFormat}).Fprint(&buf, token.NewFileSet(), f); err != nil {
		return "", err
	}
	out := buf.String()
	// a concatenation of literals (how the templates escape back-quotes) is still one literal
	for {
		folded := reConcat.ReplaceAllString(out, `"…"`)
		if folded == out {
			break
		}
		out = folded
	}
	return out, nil
}

var reConcat = regexp.MustCompile(`"…"\s*\+\s*"…"`)

func goFiles(dir string) []string {
	var out []string
	_ = filepath.Walk(dir, func(p string, info os.FileInfo, err error) error {
		if err == nil && !info.IsDir() && strings.HasSuffix(p, ".go") {
			rel, _ := filepath.Rel(dir, p)
			out = append(out, rel)
		}
		return nil
	})
	sort.Strings(out)
	return out
}

type tree struct {
	dir    string
	stage  string // "" ok | generate:<target>
	out    string
	panick bool
}

func generate(tag string, spec []byte, targets, opts []string) tree {
	dir := work.NewModule("c09:" + tag + strings.Join(targets, ",") + strings.Join(opts, " ") + string(spec))
	tr := tree{dir: dir}
	specPath := filepath.Join(dir, "swagger.json")
	_ = os.WriteFile(specPath, spec, 0o644)
	for _, tg := range targets {
		args := []string{"generate", tg, "-q", "-f", specPath, "-t", dir}
		if tg != "model" {
			args = append(args, "-A", "verif")
		}
		args = append(args, opts...)
		r := work.SwaggerGen(dir, args...)
		if !r.OK() {
			tr.stage, tr.out = "generate:"+tg, r.Out
			tr.panick = strings.Contains(r.Out, "panic:") || strings.Contains(r.Out, "goroutine ")
			return tr
		}
	}
	return tr
}

var reInjected = regexp.MustCompile(`InjectedL?(\d+)`)

// fileRole abstracts a generated file path.
func fileRole(rel string) string {
	parts := strings.Split(filepath.ToSlash(rel), "/")
	base := parts[len(parts)-1]
	top := parts[0]
	for _, sfx := range []string{"_parameters.go", "_responses.go", "_urlbuilder.go", "_client.go", "_api.go", "_operation.go", "_model.go"} {
		if strings.HasSuffix(base, sfx) {
			return top + ":" + strings.TrimSuffix(sfx[1:], ".go")
		}
	}
	switch {
	case base == "embedded_spec.go" || base == "doc.go" || base == "server.go" || base == "main.go" || base == "cli.go":
		return top + ":" + strings.TrimSuffix(base, ".go")
	case strings.HasPrefix(base, "configure_"):
		return top + ":configure"
	case top == "models":
		return "models:definition"
	case top == "restapi":
		return "restapi:handler"
	case top == "client" && len(parts) == 2:
		return "client:facade"
	}
	return top + ":other"
}

func check(c Case) (o pbt.Outcome) {
	if len(c.Sites) == 0 {
		o.Discard = true
		o.Class("discard:no-text-site")
		return
	}
	if err := swg.ValidateSpec(c.Neutral); err != nil {
		o.Discard = true
		o.Class("discard:invalid-neutral-spec")
		return
	}
	if err := swg.ValidateSpec(c.Hostile); err != nil {
		o.Discard = true
		o.Class("discard:invalid-hostile-spec")
		return
	}
	byIdx := map[int]Site{}
	for _, s := range c.Sites {
		byIdx[s.Index] = s
		o.Class("site:"+s.Kind, "shape:"+strings.SplitN(s.Shape, ":", 2)[0])
	}
	o.Class("targets:" + strings.Join(c.Targets, "+"))
	nt := generate("neutral", c.Neutral, c.Targets, c.Opts)
	defer os.RemoveAll(filepath.Dir(nt.dir))
	if nt.stage != "" {
		o.Discard = true
		o.Class("discard:neutral-" + nt.stage)
		return
	}
	ht := generate("hostile", c.Hostile, c.Targets, c.Opts)
	defer os.RemoveAll(filepath.Dir(ht.dir))
	o.Evals = 1
	o.Sample = map[string]any{"targets": c.Targets, "sites": len(c.Sites), "first_site": c.Sites[0].Kind, "first_shape": c.Sites[0].Shape, "hostile_stage": ht.stage}
	ntKey := func(outcome string) {
		for _, s := range c.Sites {
			o.NT(s.Kind + "|" + strings.SplitN(s.Shape, ":", 2)[0] + "|" + strings.Join(c.Targets, "+") + "|" + outcome)
		}
	}
	if ht.stage != "" {
		// the generator refused the hostile text: allowed (a crash is reported by class only; crashes are C01/C19 material)
		if ht.panick {
			o.Class("hostile:generator-panic")
		} else {
			o.Class("hostile:generator-error")
		}
		ntKey("rejected")
		return
	}
	nf, hf := goFiles(nt.dir), goFiles(ht.dir)
	if strings.Join(nf, "\n") != strings.Join(hf, "\n") {
		o.Fail("C09|file-set-differs|"+strings.Join(c.Targets, "+"), "the hostile rendering produced a different set of Go files:\nneutral: %v\nhostile: %v", nf, hf)
		return
	}
	leaked := map[string]bool{}
	for _, rel := range nf {
		ns, err := skeleton(filepath.Join(nt.dir, rel))
		if err != nil {
			o.Discard = true
			o.Class("discard:neutral-unparseable")
			return
		}
		hs, err := skeleton(filepath.Join(ht.dir, rel))
		if err != nil {
			o.Fail("C09|unparseable-output|"+fileRole(rel), "generation exited 0 but %s does not parse: %v", rel, err)
			continue
		}
		if ns == hs {
			continue
		}
		// which sites leaked into code, and how?
		found := false
		for _, m := range reInjected.FindAllStringSubmatch(hs, -1) {
			i, _ := strconv.Atoi(m[1])
			s, ok := byIdx[i]
			if !ok {
				continue
			}
			found = true
			key := fileRole(rel) + "|" + s.Kind + "|" + mechanism(s.Shape, strings.HasPrefix(m[0], "InjectedL"))
			if leaked[key] {
				continue
			}
			leaked[key] = true
			o.Fail("C09|code-differs|"+key, "free text at %s (%s) changed the code of %s (comments and literal values erased):\ntext: %q\n%s", s.Path, s.Kind, rel, s.Text, firstDiff(ns, hs))
		}
		if !found {
			key := fileRole(rel) + "|unattributed|" + strings.SplitN(c.Sites[0].Shape, ":", 2)[0]
			if !leaked[key] {
				leaked[key] = true
				o.Fail("C09|code-differs|"+key, "free text changed the code of %s (comments and literal values erased):\n%s", rel, firstDiff(ns, hs))
			}
		}
	}
	if len(o.Violations) > 0 {
		return
	}
	ntKey("same-skeleton")
	if c.Build {
		nb := work.GoBuildAll(nt.dir)
		if !nb.OK() {
			o.Class("neutral-does-not-build")
			return
		}
		hb := work.GoBuildAll(ht.dir)
		if hb.TimedOut {
			return
		}
		if !hb.OK() {
			o.Fail("C09|hostile-does-not-build|"+strings.SplitN(work.CompileErrClass(hb.Out), "|", 2)[0], "the neutral rendering builds, the hostile one does not:\n%s", tailS(hb.Out, 1200))
			return
		}
		o.Class("built-both")
	}
	return
}

// mechanism names how a text left its comment or literal.
func mechanism(shape string, lineMarker bool) string {
	sh := strings.SplitN(shape, ":", 2)[0]
	switch sh {
	case "comment-combo":
		if lineMarker {
			return "line-break"
		}
		return "comment-terminator"
	case "block-close", "block-close-newline":
		return "comment-terminator"
	case "newline", "mixed-newlines", "long-line", "line-comment-open", "block-open", "printf", "template", "html":
		return "line-break"
	case "backtick", "backtick-paren":
		return "back-quote"
	case "quote", "quote-plus":
		return "double-quote"
	}
	return sh
}

func uniq(xs []string) []string {
	var out []string
	for i, x := range xs {
		if i == 0 || x != xs[i-1] {
			out = append(out, x)
		}
	}
	return out
}

func firstDiff(a, b string) string {
	al, bl := strings.Split(a, "\n"), strings.Split(b, "\n")
	for i := 0; i < len(al) && i < len(bl); i++ {
		if al[i] != bl[i] {
			lo := i - 2
			if lo < 0 {
				lo = 0
			}
			hiA, hiB := i+4, i+6
			if hiA > len(al) {
				hiA = len(al)
			}
			if hiB > len(bl) {
				hiB = len(bl)
			}
			return fmt.Sprintf("line %d\n--- neutral\n%s\n--- hostile\n%s", i+1, strings.Join(al[lo:hiA], "\n"), strings.Join(bl[lo:hiB], "\n"))
		}
	}
	return fmt.Sprintf("lengths differ: %d vs %d lines", len(al), len(bl))
}

func tailS(s string, n int) string {
	if len(s) > n {
		return "…" + s[len(s)-n:]
	}
	return s
}

func TestProp(t *testing.T) {
	pbt.Main(t, pbt.Prop[Case]{
		ID:   "C09",
		Rule: "a valid spec with neutral text in every free-text position (info title/description/termsOfService/version, contact and license names, externalDocs descriptions, tag/operation/parameter/response/header/schema/property/security-scheme descriptions, summaries, titles, examples, unconstrained string defaults, patterns, host, basePath) and a copy in which one kind of position (all its sites) plus a random sample of the others carries hostile text: a Go declaration/field/statement named Injected<site> behind a comment or literal terminator (LF, CRLF, CR, mixed line endings, U+2028, NEL, `*/`, back-quote, double quote, struct-tag break, trailing backslash, template and printf syntax, control characters). Both are generated (server / client / server+client / model / cli, optionally --struct-tags=description,example and --skip-tag-packages) with the binary built from the tree. Oracle: the hostile generation fails with an error, or it writes the same set of files and every file has the same go/parser AST as its neutral twin once comments are dropped and string/char literal values (not import paths) erased; in 30% of the cases both trees are also compiled and the hostile one must build whenever the neutral one does. Non-trivial: both renderings generated; distinct by (site kind, hostile shape, targets, outcome).",
		Assumptions: []string{
			"names (definitions, properties, parameters, enum values...) are not free text and stay neutral; -A fixes the application name so that info.title is pure text",
			"contact/license/externalDocs URLs and e-mail are format-constrained by the Swagger schema and stay neutral; hostile patterns are valid RE2, hostile hosts satisfy the schema's host pattern",
		},
		Gen:   gen,
		Check: check,
	})
}
