package c18

import (
	"encoding/json"
	"fmt"
	"os"
	"path/filepath"
	"sort"
	"strings"
	"testing"

	"github.com/go-swagger/go-swagger/codescan"
	"pgregory.net/rapid"

	"verif/internal/pbt"
	"verif/internal/refmodel"
	"verif/internal/specgen"
	"verif/internal/swg"
	"verif/internal/work"
)

type J = specgen.J
type A = specgen.A

type Case struct {
	Spec json.RawMessage `json:"spec"`
}

func defName(t *rapid.T, l string) string {
	n := specgen.PlainName(t, l)
	return strings.ToUpper(n[:1]) + n[1:]
}

func gen(t *rapid.T) Case {
	doc := specgen.ModelSpec(t, specgen.ModelOpts{Name: specgen.PlainName, DefName: defName, Tuples: false, Composite: true, MinDefs: 5, MaxDefs: 10})
	return Case{Spec: specgen.JSONBytes(doc)}
}

type diffEntry struct {
	kind, keyword, pos, msg string
	inAllOf                bool
	lifted                 bool // reported at a position where a reference to a lifted anonymous type was followed
}

// cmpCtx carries the two definition tables (to follow references to lifted anonymous types).
type cmpCtx struct {
	odefs, sdefs J
}

var validations = []string{"maximum", "minimum", "exclusiveMaximum", "exclusiveMinimum", "multipleOf", "minLength", "maxLength", "pattern", "minItems", "maxItems", "uniqueItems", "minProperties", "maxProperties"}

func normFormat(s J) string {
	f, _ := s["format"].(string)
	switch s["type"] {
	case "integer":
		if f == "" {
			return "int64"
		}
	case "number":
		if f == "" {
			return "double"
		}
	}
	return f
}

func posClass(pos []string) string {
	if len(pos) == 0 {
		return "top"
	}
	return pos[len(pos)-1]
}

func orEmpty(s string) string {
	if s == "" {
		return "untyped"
	}
	return s
}

func isValidation(kw string) bool {
	if kw == "enum" {
		return true
	}
	for _, v := range validations {
		if v == kw {
			return true
		}
	}
	return false
}

// signature: root-cause class of one difference (see DESIGN.md C18).
func signature(d diffEntry) string {
	switch {
	case d.inAllOf:
		return "C18|region:allOf-composition"
	case isValidation(d.keyword) && d.pos != "prop":
		return "C18|lost|validation-not-on-a-struct-field|" + d.pos
	}
	switch {
	case d.keyword == "additionalProperties" && d.kind == "lost":
		return "C18|lost|additionalProperties"
	case d.keyword == "$ref:ref-became-inline":
		return "C18|changed|$ref:ref-became-inline"
	case d.keyword == "type:object->untyped":
		return "C18|changed|type:object->untyped"
	case d.lifted:
		return fmt.Sprintf("C18|%s|%s|on-lifted-anonymous-type", d.kind, d.keyword)
	}
	return fmt.Sprintf("C18|%s|%s|%s", d.kind, d.keyword, d.pos)
}

func isFalsy(v any) bool {
	switch x := v.(type) {
	case nil:
		return true
	case bool:
		return !x
	}
	return false
}

func asList(v any) A { l, _ := v.(A); return l }

func strSet(v any) []string {
	var out []string
	for _, x := range asList(v) {
		out = append(out, fmt.Sprint(x))
	}
	sort.Strings(out)
	return out
}

// compare reports differences between an original schema and its scanned counterpart.
func (c *cmpCtx) compare(o, s J, pos []string, path string, out *[]diffEntry, depth int, inAllOf bool, lifted ...bool) {
	isLifted := len(lifted) > 0 && lifted[0]
	if depth > 12 {
		return
	}
	if o["allOf"] != nil {
		inAllOf = true
	}
	add := func(kind, kw, format string, args ...any) {
		*out = append(*out, diffEntry{kind, kw, posClass(pos), path + ": " + fmt.Sprintf(format, args...), inAllOf, isLifted})
	}
	if s == nil {
		add("lost", "schema", "position missing from the scanned spec")
		return
	}
	or, _ := o["$ref"].(string)
	sr, _ := s["$ref"].(string)
	if or == "" && sr != "" {
		// the generator lifts anonymous schemas into named types: a reference to a
		// definition the original spec does not have is followed, not reported
		name := strings.TrimPrefix(sr, "#/definitions/")
		if _, orig := c.odefs[name]; !orig {
			if target, ok := c.sdefs[name].(J); ok && depth < 10 {
				// keywords that sat next to the (now) reference are compared against the target:
				// siblings of a $ref do not survive, which is reported with the lifted flag
				merged := J{}
				for k, v := range target {
					merged[k] = v
				}
				for _, k := range []string{"readOnly"} {
					if v, ok := s[k]; ok {
						merged[k] = v
					}
				}
				c.compare(o, merged, pos, path, out, depth+1, inAllOf, true)
				return
			}
		}
	}
	if or != sr {
		switch {
		case or != "" && sr == "":
			add("changed", "$ref:ref-became-inline", "reference %s became an inline schema %s", or, short(s))
		case or == "" && sr != "":
			add("changed", "$ref:inline-became-ref", "inline schema became reference %s", sr)
		default:
			add("changed", "$ref:retargeted", "%s became %s", or, sr)
		}
		return
	}
	if or != "" {
		return
	}
	ot, _ := o["type"].(string)
	st, _ := s["type"].(string)
	if ot != st && !(ot == "" && o["allOf"] != nil) && !(ot == "object" && st == "" && s["allOf"] != nil) {
		add("changed", fmt.Sprintf("type:%s->%s", orEmpty(ot), orEmpty(st)), "%q became %q", ot, st)
		return
	}
	if normFormat(o) != normFormat(s) {
		add("changed", "format", "%q became %q", normFormat(o), normFormat(s))
	}
	if isFalsy(o["readOnly"]) != isFalsy(s["readOnly"]) {
		add(lostOr(o["readOnly"]), "readOnly", "%v became %v", o["readOnly"], s["readOnly"])
	}
	if fmt.Sprint(o["discriminator"]) != fmt.Sprint(s["discriminator"]) {
		add(lostOr(o["discriminator"]), "discriminator", "%v became %v", o["discriminator"], s["discriminator"])
	}
	for _, kw := range validations {
		ov, sv := o[kw], s[kw]
		if isFalsy(ov) && isFalsy(sv) {
			continue
		}
		if !refmodel.JSONEqual(ov, sv) {
			if kw == "exclusiveMaximum" || kw == "exclusiveMinimum" || kw == "uniqueItems" {
				if isFalsy(ov) == isFalsy(sv) {
					continue
				}
			}
			add(lostOr(ov), kw, "%v became %v", ov, sv)
		}
	}
	if oe, se := asList(o["enum"]), asList(s["enum"]); len(oe) > 0 || len(se) > 0 {
		a, b := strSet(oe), strSet(se)
		if strings.Join(a, "\x00") != strings.Join(b, "\x00") {
			add(lostOr(o["enum"]), "enum", "%v became %v", oe, se)
		}
	}
	if a, b := strSet(o["required"]), strSet(s["required"]); strings.Join(a, "\x00") != strings.Join(b, "\x00") {
		add("changed", "required", "%v became %v", a, b)
	}
	// properties
	op, _ := o["properties"].(J)
	sp, _ := s["properties"].(J)
	for _, k := range sortedKeys(op) {
		oj, _ := op[k].(J)
		sj, ok := sp[k].(J)
		if !ok {
			*out = append(*out, diffEntry{"lost", "property", posClass(pos), path + "." + k + ": property missing from the scanned definition", inAllOf, false})
			continue
		}
		c.compare(oj, sj, append(append([]string{}, pos...), "prop"), path+"."+k, out, depth+1, inAllOf)
	}
	for _, k := range sortedKeys(sp) {
		if _, ok := op[k]; !ok {
			*out = append(*out, diffEntry{"invented", "property", posClass(pos), path + "." + k + ": property not in the original definition", inAllOf, false})
		}
	}
	// items
	switch oi := o["items"].(type) {
	case J:
		si, _ := s["items"].(J)
		c.compare(oi, si, append(append([]string{}, pos...), "items"), path+"[]", out, depth+1, inAllOf)
	case A:
		si, _ := s["items"].(A)
		if len(si) != len(oi) {
			add("changed", "tuple", "tuple of %d became %v", len(oi), short(s["items"]))
		}
	default:
		if s["items"] != nil {
			add("invented", "items", "items appeared: %s", short(s["items"]))
		}
	}
	// additionalProperties
	switch oa := o["additionalProperties"].(type) {
	case J:
		sa, _ := s["additionalProperties"].(J)
		if sa == nil {
			add("lost", "additionalProperties", "schema %s became %v", short(oa), s["additionalProperties"])
		} else {
			c.compare(oa, sa, append(append([]string{}, pos...), "addl"), path+"{}", out, depth+1, inAllOf)
		}
	case bool:
		// `additionalProperties: false` has no Go counterpart; true means map[string]interface{}
		if oa {
			if s["additionalProperties"] == nil {
				add("lost", "additionalProperties", "true became absent")
			}
		}
	default:
		if sa, ok := s["additionalProperties"].(J); ok && len(op) > 0 {
			add("invented", "additionalProperties", "appeared: %s", short(sa))
		}
	}
	// allOf
	oa, sa := asList(o["allOf"]), asList(s["allOf"])
	if len(oa) != len(sa) {
		add("changed", "allOf", "%d members became %d (%s)", len(oa), len(sa), short(s))
	} else {
		for i := range oa {
			oj, _ := oa[i].(J)
			sj, _ := sa[i].(J)
			c.compare(oj, sj, append(append([]string{}, pos...), "allOf"), fmt.Sprintf("%s(allOf %d)", path, i), out, depth+1, true)
		}
	}
}

func lostOr(orig any) string {
	if isFalsy(orig) {
		return "invented"
	}
	return "lost-or-changed"
}

func short(v any) string {
	b, _ := json.Marshal(v)
	if len(b) > 120 {
		return string(b[:120]) + "…"
	}
	return string(b)
}

func sortedKeys(m J) []string {
	out := make([]string, 0, len(m))
	for k := range m {
		out = append(out, k)
	}
	sort.Strings(out)
	return out
}

func check(c Case) (o pbt.Outcome) {
	if err := swg.ValidateSpec(c.Spec); err != nil {
		o.Discard = true
		o.Class("discard:invalid-spec")
		return
	}
	dir := work.NewModule("c18:" + string(c.Spec))
	defer os.RemoveAll(filepath.Dir(dir))
	specPath := filepath.Join(dir, "swagger.json")
	_ = os.WriteFile(specPath, c.Spec, 0o644)
	g := work.SwaggerGen(dir, "generate", "model", "-q", "-f", specPath, "-t", dir)
	if !g.OK() {
		o.Discard = true
		o.Class("unusable-program:generate")
		return
	}
	var scanned any
	var scanErr error
	panicked, pmsg, stack := pbt.Recover(func() {
		sw, err := codescan.Run(&codescan.Options{Packages: []string{"./models"}, WorkDir: dir, ScanModels: true})
		scanErr = err
		if err == nil {
			b, _ := json.Marshal(sw)
			_ = json.Unmarshal(b, &scanned)
		}
	})
	if panicked {
		o.Fail("C18|scan-panic|"+pbt.TopFrame(stack, "codescan"), "scanning the generated models panicked: %s\n%s", pmsg, stack)
		return
	}
	if scanErr != nil {
		o.Fail("C18|scan-error|"+errClass(scanErr.Error()), "scanning the generated models failed: %v", scanErr)
		return
	}
	orig, _ := specgen.Parse(c.Spec)
	odefs, _ := orig["definitions"].(J)
	sroot, _ := scanned.(J)
	sdefs, _ := sroot["definitions"].(J)
	o.Evals = len(odefs)
	o.Sample = map[string]any{"definitions": len(odefs), "scanned_definitions": len(sdefs)}
	for _, n := range sortedKeys(odefs) {
		od, _ := odefs[n].(J)
		sd, ok := sdefs[n].(J)
		if !ok {
			o.Fail("C18|lost|definition|"+defKind(od), "definition %s is missing from the scanned spec (scanned: %v)\n  original: %s", n, sortedKeys(sdefs), short(od))
			continue
		}
		var diffs []diffEntry
		ctx := &cmpCtx{odefs: odefs, sdefs: sdefs}
		ctx.compare(od, sd, nil, n, &diffs, 0, false)
		kws := keywordsOf(od)
		o.NT(n + "|" + strings.Join(kws, ","))
		for _, k := range kws {
			o.Class("keyword:" + k)
		}
		seen := map[string]bool{}
		for _, d := range diffs {
			sig := signature(d)
			if seen[sig] {
				continue
			}
			seen[sig] = true
			o.Fail(sig, "%s\n  original: %s\n  scanned:  %s", d.msg, specgen.JSONBytes(od), specgen.JSONBytes(sd))
		}
	}
	return
}

func defKind(d J) string {
	switch {
	case d["allOf"] != nil:
		return "allOf"
	case d["$ref"] != nil:
		return "alias"
	case d["type"] == "object" && d["properties"] == nil:
		return "map-or-empty-object"
	}
	if t, ok := d["type"].(string); ok {
		return t
	}
	return "untyped"
}

func keywordsOf(s J) []string {
	b := string(specgen.JSONBytes(s))
	var f []string
	for _, k := range append([]string{"allOf", "additionalProperties", "$ref", "items", "enum", "format", "required", "readOnly", "discriminator"}, validations...) {
		if strings.Contains(b, `"`+k+`"`) {
			f = append(f, k)
		}
	}
	return f
}

func errClass(m string) string {
	if i := strings.Index(m, "\n"); i >= 0 {
		m = m[:i]
	}
	if len(m) > 80 {
		m = m[:80]
	}
	return m
}

func TestProp(t *testing.T) {
	pbt.Main(t, pbt.Prop[Case]{
		ID:   "C18",
		Rule: "model specs of 5-10 definitions (names of >= 3 characters; primitives with every format, all validation keywords, arrays, nested arrays, maps, nested objects, allOf of refs and inline members, allOf compositions with container-typed members, $ref chains) -> `swagger generate model` (binary from the tree) -> codescan.Run(ScanModels) over the generated package -> position-by-position comparison of the normalised original and scanned definition: property names, type, format (integer=>int64, number=>double), required set, $ref targets, allOf structure, additionalProperties, readOnly, discriminator and every validation keyword, at top level, properties, items, map values and allOf members. Ignored: default, example, titles/descriptions, x-* extensions. Non-trivial: definition present in both documents; distinct by (definition name, keyword set). One signature per (difference kind, keyword, position class).",
		Assumptions: []string{
			"specs the generator rejects are C01's subject (counted unusable)",
			"`additionalProperties: false` has no Go counterpart and is not expected back",
		},
		Gen:   gen,
		Check: check,
	})
}
