package c12

import (
	"encoding/json"
	"fmt"
	"os"
	"path/filepath"
	"sort"
	"strings"
	"testing"
	"time"

	"github.com/go-openapi/loads"
	"github.com/go-openapi/spec"
	"github.com/go-swagger/go-swagger/cmd/swagger/commands"
	"github.com/go-swagger/go-swagger/cmd/swagger/commands/diff"
	"pgregory.net/rapid"

	"verif/internal/pbt"
	"verif/internal/specgen"
	"verif/internal/swg"
)

// Case: identity (B empty) or totality (B present).
type Case struct {
	A       json.RawMessage `json:"a"`
	B       json.RawMessage `json:"b,omitempty"`
	Variant string          `json:"variant"` // same | yaml | keys | lists
	Seed    uint64          `json:"seed"`
	ViaCLI  bool            `json:"via_cli"`
}

func Cfg() *specgen.SpecCfg {
	return &specgen.SpecCfg{
		Schema: specgen.Opts{Name: specgen.TextName, MaxDepth: 3, Tuples: true, Untyped: true, AllOf: true, AddlProps: true,
			Defaults: true, Examples: true, Extensions: true, Descr: true, XNullable: true, ReadOnly: true, MinMaxProps: true},
		Simple:  specgen.SimpleOpts{Defaults: true, Extensions: true, MaxDepth: 2, File: true},
		MinDefs: 0, MaxDefs: 4, MinPaths: 1, MaxPaths: 3, MaxParams: 3,
		ParamName: specgen.TextName,
		Tags:      true, Meta: true, Security: true, Extensions: true, SharedParams: true, RespHeaders: true,
		FormData: true, Body: true, Deprecated: true, OpConsumes: true, DefaultResponse: true,
	}
}

func gen(t *rapid.T) Case {
	a := specgen.Spec(t, Cfg())
	c := Case{A: specgen.JSONBytes(a)}
	c.ViaCLI = rapid.IntRange(0, 9).Draw(t, "via_cli") == 0
	if rapid.IntRange(0, 2).Draw(t, "mode") == 0 {
		// totality: an edited copy or an unrelated spec
		if rapid.Bool().Draw(t, "unrelated") {
			c.B = specgen.JSONBytes(specgen.Spec(t, Cfg()))
		} else {
			b := specgen.CloneJ(a)
			n := rapid.IntRange(1, 5).Draw(t, "nedits")
			for i := 0; i < n; i++ {
				specgen.RandomEdit(t, fmt.Sprintf("e%d", i), b)
			}
			c.B = specgen.JSONBytes(b)
		}
		c.Variant = "pair"
		return c
	}
	c.Variant = rapid.SampledFrom([]string{"same", "yaml", "keys", "lists"}).Draw(t, "variant")
	c.Seed = rapid.Uint64Range(0, 1<<30).Draw(t, "perm")
	return c
}

var tmpDir string

func tmp() string {
	if tmpDir == "" {
		d, err := os.MkdirTemp(pbt.Getenv("VERIF_SCRATCH", ""), "c12-")
		if err != nil {
			panic(err)
		}
		tmpDir = d
	}
	return tmpDir
}

type cmpResult struct {
	diffs    diff.SpecDifferences
	err      error
	panicked bool
	pmsg     string
	stack    []byte
	timeout  bool
}

func compare(s1, s2 *spec.Swagger) cmpResult {
	ch := make(chan cmpResult, 1)
	go func() {
		var r cmpResult
		r.panicked, r.pmsg, r.stack = pbt.Recover(func() {
			r.diffs, r.err = diff.Compare(s1, s2)
		})
		ch <- r
	}()
	select {
	case r := <-ch:
		return r
	case <-time.After(60 * time.Second):
		return cmpResult{timeout: true}
	}
}

func panicClass(msg string) string {
	switch {
	case strings.Contains(msg, "uncomparable"):
		return "uncomparable"
	case strings.Contains(msg, "nil pointer"):
		return "nil-deref"
	case strings.Contains(msg, "index out of range"):
		return "index-out-of-range"
	}
	return "other"
}

func loadVariant(c Case) (*spec.Swagger, error) {
	tree, err := specgen.Parse(c.A)
	if err != nil {
		return nil, err
	}
	switch c.Variant {
	case "yaml":
		p := swg.WriteTemp(tmp(), "a.yaml", specgen.YAML(tree))
		d, err := loads.Spec(p)
		if err != nil {
			return nil, err
		}
		return d.Spec(), nil
	case "keys":
		return swg.Swagger(specgen.Shuffled(tree, c.Seed, false))
	case "lists":
		return swg.Swagger(specgen.Shuffled(tree, c.Seed, true))
	}
	return swg.Swagger(c.A)
}

func features(tree specgen.J) []string {
	b := string(specgen.JSONBytes(tree))
	var f []string
	for k, needle := range map[string]string{
		"allOf": `"allOf"`, "tuple": `"items":[`, "ref": `"$ref"`, "default": `"default"`, "example": `"example"`,
		"shared-params": `"parameters":[`, "ext": `"x-`, "headers": `"headers"`, "formData": `"formData"`, "body": `"in":"body"`,
		"addlProps": `"additionalProperties"`, "enum": `"enum"`, "deprecated": `"deprecated"`,
	} {
		if strings.Contains(b, needle) {
			f = append(f, k)
		}
	}
	sort.Strings(f)
	return f
}

func check(c Case) (o pbt.Outcome) {
	swg.Quiet()
	// Validity of the inputs (the property's domain) is decided by validate.Spec,
	// which costs ~100x a comparison: it is evaluated on every case that shows a
	// violation and on a 1-in-4 sample of the others (invalid rate reported).
	sampled := len(c.A)%4 == 0
	defer func() {
		if len(o.Violations) == 0 && !sampled {
			o.NonTrivial = nil
			o.Class("validity:not-sampled")
			return
		}
		bad := swg.ValidateSpec(c.A) != nil
		if !bad && len(c.B) > 0 {
			bad = swg.ValidateSpec(c.B) != nil
		}
		if bad {
			o.Violations, o.NonTrivial = nil, nil
			o.Discard = true
			o.Class("validity:invalid-discarded")
		} else {
			o.Class("validity:validated")
		}
	}()
	treeA, _ := specgen.Parse(c.A)
	feats := features(treeA)
	s1, err := swg.Swagger(c.A)
	if err != nil {
		o.Fail("C12|load-error", "cannot load A: %v", err)
		return
	}
	var s2 *spec.Swagger
	if len(c.B) > 0 {
		s2, err = swg.Swagger(c.B)
	} else {
		s2, err = loadVariant(c)
	}
	if err != nil {
		o.Fail("C12|load-error|"+c.Variant, "cannot load second document: %v", err)
		return
	}
	o.Class("variant:" + c.Variant)
	for _, f := range feats {
		o.Class("feature:" + f)
	}
	o.Sample = map[string]any{"variant": c.Variant, "bytes_a": len(c.A), "bytes_b": len(c.B), "features": feats, "spec_a_head": headOf(c.A)}
	r := compare(s1, s2)
	switch {
	case r.timeout:
		o.Fail("C12|timeout|"+c.Variant, "diff.Compare did not return within 60s")
		return
	case r.panicked:
		o.Fail("C12|panic|"+pbt.TopFrame(r.stack, "commands/diff")+"|"+panicClass(r.pmsg), "diff.Compare panicked: %s\n%s", r.pmsg, r.stack)
		return
	case r.err != nil:
		o.Fail("C12|error|"+c.Variant, "diff.Compare returned error on valid specs: %v", r.err)
		return
	}
	if len(c.B) == 0 {
		if len(r.diffs) != 0 {
			d := r.diffs[0]
			o.Fail(fmt.Sprintf("C12|self-diff|%s|%s", c.Variant, d.Code.Description()), "spec differs from itself (%s): %d differences, first: %s", c.Variant, len(r.diffs), d.String())
		}
		if len(feats) >= 3 {
			o.NT(c.Variant + "|" + strings.Join(feats, ","))
		}
	} else {
		o.Class(fmt.Sprintf("pair-diffs:%s", bucket(len(r.diffs))))
		if len(r.diffs) > 0 {
			o.NT("pair|" + strings.Join(feats, ",") + "|" + fmt.Sprint(len(r.diffs)))
		}
	}
	if c.ViaCLI {
		cliCheck(c, &o)
	}
	return
}

func headOf(b []byte) string {
	if len(b) > 300 {
		return string(b[:300]) + "…"
	}
	return string(b)
}

func bucket(n int) string {
	switch {
	case n == 0:
		return "0"
	case n < 5:
		return "1-4"
	case n < 20:
		return "5-19"
	}
	return "20+"
}

// cliCheck drives the command object the binary uses (exit path: returned error).
func cliCheck(c Case, o *pbt.Outcome) {
	dir := tmp()
	pa := swg.WriteTemp(dir, "cli_a.json", c.A)
	var pb string
	if len(c.B) > 0 {
		pb = swg.WriteTemp(dir, "cli_b.json", c.B)
	} else {
		tree, _ := specgen.Parse(c.A)
		switch c.Variant {
		case "yaml":
			pb = swg.WriteTemp(dir, "cli_b.yaml", specgen.YAML(tree))
		case "keys":
			pb = swg.WriteTemp(dir, "cli_b.json", specgen.Shuffled(tree, c.Seed, false))
		case "lists":
			pb = swg.WriteTemp(dir, "cli_b.json", specgen.Shuffled(tree, c.Seed, true))
		default:
			pb = pa
		}
	}
	out := filepath.Join(dir, "cli_out.txt")
	cmd := &commands.DiffCommand{Format: "txt", IgnoreFile: "none specified", Destination: out}
	cmd.Args.OldSpec, cmd.Args.NewSpec = pa, pb
	var err error
	panicked, pmsg, stack := pbt.Recover(func() { err = cmd.Execute(nil) })
	o.Class("cli")
	if panicked {
		o.Fail("C12|cli-panic|"+pbt.TopFrame(stack, "commands")+"|"+panicClass(pmsg), "swagger diff panicked: %s\n%s", pmsg, stack)
		return
	}
	if len(c.B) == 0 {
		rep, _ := os.ReadFile(out)
		if err != nil {
			o.Fail("C12|cli-self-nonzero|"+c.Variant, "swagger diff A A' exits non-zero: %v", err)
		} else if strings.TrimSpace(string(rep)) != "No changes identified" {
			o.Fail("C12|cli-self-report|"+c.Variant, "swagger diff A A' reports: %s", rep)
		}
	}
}

func theProp() pbt.Prop[Case] {
	return pbt.Prop[Case]{
		ID:   "C12",
		Rule: "specs drawn from the diff-oriented grammar (path-level shared parameters, all parameter locations, array params with defaults/examples, headers, untyped schemas, tuples, allOf, $ref cycles, extensions everywhere); identity cases compare A with itself / its YAML rendering / key-shuffled / parameter- and enum-list-shuffled copy; totality cases compare A with an edited copy (1-5 catalogue edits) or an unrelated spec. Non-trivial: identity case whose spec exhibits >=3 catalogue features, or a pair with a non-empty report; distinct by (variant, feature set[, report size]).",
		Assumptions: []string{
			"validity of an input is decided by go-openapi/validate.Spec (the validator `swagger validate` uses), evaluated on every violating case and on a 1-in-4 sample of passing cases; only validated cases count as non-trivial; invalid draws are discarded and counted",
			"non-termination is observed as a 60 s overrun of one comparison (median is < 1 ms)",
		},
		Gen:   gen,
		Check: check,
	}
}

func TestProp(t *testing.T) { pbt.Main(t, theProp()) }

// FuzzProp is the native, coverage-guided entry (thorough tier).
func FuzzProp(f *testing.F) { pbt.Fuzz(f, theProp()) }

