package c14

import (
	"encoding/json"
	"fmt"
	"sort"
	"strings"
	"testing"

	"github.com/go-swagger/go-swagger/cmd/swagger/commands/diff"
	"pgregory.net/rapid"

	"verif/internal/diffx"
	"verif/internal/pbt"
	"verif/internal/specgen"
	"verif/internal/swg"
)

type Case struct {
	A     json.RawMessage `json:"a"`
	B     json.RawMessage `json:"b"`
	Edits []string        `json:"edits"`
}

func gen(t *rapid.T) Case {
	a, b, kinds := diffx.GenPair(t, 6)
	return Case{A: specgen.JSONBytes(a), B: specgen.JSONBytes(b), Edits: kinds}
}

type item struct {
	loc string
	dir diffx.Dir
}

func (i item) String() string { return i.loc + " :: " + i.dir.String() }

func items(ds diff.SpecDifferences, mirror bool) []string {
	var out []string
	for _, d := range ds {
		dir, ok := diffx.CodeDir[d.Code]
		if !ok {
			dir = diffx.Dir{Class: "unknown-code-" + d.Code.Description(), Sign: 0}
		}
		if mirror {
			dir.Sign = -dir.Sign
		}
		out = append(out, item{diffx.LocKey(d.DifferenceLocation), dir}.String())
	}
	sort.Strings(out)
	return out
}

func multisetDiff(a, b []string) (onlyA, onlyB []string) {
	cnt := map[string]int{}
	for _, x := range a {
		cnt[x]++
	}
	for _, x := range b {
		cnt[x]--
	}
	keys := make([]string, 0, len(cnt))
	for k := range cnt {
		keys = append(keys, k)
	}
	sort.Strings(keys)
	for _, k := range keys {
		for i := 0; i < cnt[k]; i++ {
			onlyA = append(onlyA, k)
		}
		for i := 0; i < -cnt[k]; i++ {
			onlyB = append(onlyB, k)
		}
	}
	return
}

func locClass(loc string) string {
	switch {
	case strings.Contains(loc, " ->"):
		return "response"
	case strings.HasPrefix(loc, " "):
		return "spec"
	case strings.Contains(loc, " ▸"):
		return "request"
	}
	return "endpoint"
}

func check(c Case) (o pbt.Outcome) {
	swg.Quiet()
	sampled := len(c.A)%4 == 0
	defer func() {
		if len(o.Violations) == 0 && !sampled {
			o.NonTrivial = nil
			o.Class("validity:not-sampled")
			return
		}
		if swg.ValidateSpec(c.A) != nil || swg.ValidateSpec(c.B) != nil {
			o.Violations, o.NonTrivial = nil, nil
			o.Discard = true
			o.Class("validity:invalid-discarded")
		} else {
			o.Class("validity:validated")
		}
	}()
	s1, err1 := swg.Swagger(c.A)
	s2, err2 := swg.Swagger(c.B)
	if err1 != nil || err2 != nil {
		o.Discard = true
		return
	}
	ab := diffx.Compare(s1, s2)
	// reload: Compare must not be handed documents a previous run may have touched
	s1b, _ := swg.Swagger(c.A)
	s2b, _ := swg.Swagger(c.B)
	ba := diffx.Compare(s2b, s1b)
	for _, r := range []diffx.Result{ab, ba} {
		if r.Panicked || r.Timeout || r.Err != nil {
			// totality is C12's subject; here the case asserts nothing
			o.Class("skipped:diff-crashed")
			return
		}
	}
	for _, e := range c.Edits {
		o.Class("edit:" + e)
	}
	fwd := items(ab.Diffs, true)
	rev := items(ba.Diffs, false)
	onlyF, onlyR := multisetDiff(fwd, rev)
	directional := 0
	locs := map[string]bool{}
	for _, d := range ab.Diffs {
		if diffx.CodeDir[d.Code].Sign != 0 {
			directional++
		}
		locs[locClass(diffx.LocKey(d.DifferenceLocation))] = true
		o.Class("code:" + d.Code.Description())
	}
	o.Sample = map[string]any{"edits": c.Edits, "report_ab": len(ab.Diffs), "report_ba": len(ba.Diffs), "first_ab": first(ab.Diffs), "first_ba": first(ba.Diffs)}
	if directional > 0 {
		var lc []string
		for k := range locs {
			lc = append(lc, k)
		}
		sort.Strings(lc)
		ek := append([]string{}, c.Edits...)
		sort.Strings(ek)
		o.NT(strings.Join(ek, ",") + "|" + strings.Join(lc, ","))
	}
	if len(onlyF) == 0 && len(onlyR) == 0 {
		if len(ab.Diffs) != len(ba.Diffs) {
			o.Fail("C14|count", "reports differ in length: %d vs %d", len(ab.Diffs), len(ba.Diffs))
		}
		return
	}
	// signature: the unmatched entries at the first mismatching location
	var loc string
	if len(onlyF) > 0 {
		loc = strings.SplitN(onlyF[0], " :: ", 2)[0]
	} else {
		loc = strings.SplitN(onlyR[0], " :: ", 2)[0]
	}
	at := func(xs []string) string {
		var out []string
		for _, x := range xs {
			p := strings.SplitN(x, " :: ", 2)
			if p[0] == loc {
				out = append(out, p[1])
			}
		}
		return strings.Join(out, ",")
	}
	sig := fmt.Sprintf("C14|mirror|%s|expected-in-BA:%s|found-in-BA:%s", locClass(loc), at(onlyF), at(onlyR))
	if len(onlyF) > 0 && at(onlyR) == "" {
		// the counterpart may have been reported under another node of the same
		// URL/method/response (e.g. Body vs NoContent): make that explicit
		pf := strings.SplitN(onlyF[0], " :: ", 2)
		prefix, nodeF := splitLoc(pf[0])
		for _, x := range onlyR {
			pr := strings.SplitN(x, " :: ", 2)
			pre, nodeR := splitLoc(pr[0])
			if pre == prefix && strings.TrimRight(pr[1], "+-=") == strings.TrimRight(pf[1], "+-=") {
				sig = fmt.Sprintf("C14|mirror|%s|relocated:%s->%s|expected-in-BA:%s|found-in-BA:%s", locClass(loc), firstNode(nodeF), firstNode(nodeR), pf[1], pr[1])
				break
			}
		}
	}
	o.Fail(sig, "diff(A,B) mirrored != diff(B,A) at %q\n  expected in diff(B,A) but missing: %v\n  present in diff(B,A) but not the mirror of anything in diff(A,B): %v\n  edits: %v\n  diff(A,B):\n%s\n  diff(B,A):\n%s",
		loc, onlyF, onlyR, c.Edits, render(ab.Diffs), render(ba.Diffs))
	return
}

func splitLoc(loc string) (prefix, nodes string) {
	if i := strings.Index(loc, " ▸"); i >= 0 {
		return loc[:i], loc[i:]
	}
	return loc, ""
}

func firstNode(nodes string) string {
	p := strings.Split(strings.TrimPrefix(nodes, " ▸"), " ▸")
	return p[0]
}

func first(ds diff.SpecDifferences) string {
	if len(ds) == 0 {
		return ""
	}
	return ds[0].String()
}

func render(ds diff.SpecDifferences) string {
	var l []string
	for _, d := range ds {
		l = append(l, "    "+d.String())
	}
	sort.Strings(l)
	if len(l) > 40 {
		l = append(l[:40], "    …")
	}
	return strings.Join(l, "\n")
}

func TestProp(t *testing.T) {
	pbt.Main(t, pbt.Prop[Case]{
		ID:   "C14",
		Rule: "pairs (A, B) with B = A after 1-6 random catalogue edits (additive, removing, widening, narrowing and direction-less, at every level: endpoints, parameters, items, body/response schemas, headers, extensions, metadata); oracle: the multiset {(location, mirror(code))} of diff(A,B) equals {(location, code)} of diff(B,A), location reduced to URL, method, response code and field-name chain. Non-trivial: diff(A,B) contains >=1 directional code; distinct by (sorted edit kinds, location classes).",
		Assumptions: []string{
			"validity decided by go-openapi/validate.Spec on every violating case and a 1-in-4 sample of the others; only validated cases count as non-trivial",
			"pairs on which diff panics are C12's subject and assert nothing here",
			"mirror table: Added*<->Deleted* (AddedProperty|AddedRequiredProperty<->DeletedProperty, AddedEndpoint<->DeletedEndpoint|DeletedDeprecatedEndpoint), Widened<->Narrowed, OptionalToRequired<->RequiredToOptional, all Changed*/RefTarget* self-mirrored",
		},
		Gen:   gen,
		Check: check,
	})
}
