package c19

import (
	"bytes"
	"encoding/json"
	"fmt"
	"io"
	"math/big"
	"os"
	"path/filepath"
	"sort"
	"strconv"
	"strings"
	"testing"

	"github.com/go-openapi/loads"
	"github.com/go-swagger/go-swagger/cmd/swagger/commands"
	"github.com/go-swagger/go-swagger/cmd/swagger/commands/generate"
	"github.com/go-swagger/go-swagger/cmd/swagger/commands/initcmd"
	"gopkg.in/yaml.v3"
	"pgregory.net/rapid"

	"verif/internal/pbt"
	"verif/internal/specgen"
	"verif/internal/swg"
)

type J = specgen.J
type A = specgen.A

type Case struct {
	Cmd     string            `json:"cmd"` // expand | flatten-minimal | flatten-full | flatten-expand | mixin | genspec | init
	Spec    json.RawMessage   `json:"spec,omitempty"`
	Mixins  []json.RawMessage `json:"mixins,omitempty"`
	Compact bool              `json:"compact"`
	Init    map[string]string `json:"init,omitempty"`
}

func cfg() *specgen.SpecCfg {
	return &specgen.SpecCfg{
		Schema: specgen.Opts{Name: specgen.AmbiguousKey, MaxDepth: 2, AllOf: true, AddlProps: true,
			Defaults: true, Examples: true, Extensions: true, Descr: true, Text: specgen.AmbiguousText, ExtValue: specgen.AmbiguousExt},
		Simple:  specgen.SimpleOpts{Defaults: true, Extensions: true, MaxDepth: 1},
		MinDefs: 1, MaxDefs: 3, MinPaths: 1, MaxPaths: 2, MaxParams: 2,
		Tags: true, Meta: true, Extensions: true, SharedParams: true, RespHeaders: true,
		Body: true, DefaultResponse: true,
		Text: specgen.AmbiguousText, ExtValue: specgen.AmbiguousExt,
		Methods: []string{"get", "post", "put"},
	}
}

var bigIntKeyword = map[string]string{"string": "maxLength", "array": "maxItems", "object": "maxProperties"}

// all within int64; none is representable as a float64
var bigInts = []string{"9007199254740993", "4611686018427387905", "9223372036854775807", "36028797018963969"}

// sprinkle puts ambiguous defaults / examples on unconstrained primitives.
func sprinkle(t *rapid.T, doc J) {
	big := rapid.IntRange(0, 4).Draw(t, "bigints") == 0 // one spec in five, so that the rounding finding does not mask the rest
	for i, s := range specgen.SchemaSites(doc, false) {
		if s.S["enum"] != nil || s.S["format"] != nil || s.S["pattern"] != nil || s.S["minLength"] != nil || s.S["maxLength"] != nil ||
			s.S["minimum"] != nil || s.S["maximum"] != nil || s.S["multipleOf"] != nil {
			continue
		}
		l := fmt.Sprintf("spr%d", i)
		// integer-valued keywords (Go int64 in the spec model) beyond 2^53: exact in JSON, lost by any float64 detour
		if kw := bigIntKeyword[fmt.Sprint(s.S["type"])]; big && kw != "" && s.S[kw] == nil && rapid.IntRange(0, 2).Draw(t, l+"big") == 0 {
			s.S[kw] = json.Number(rapid.SampledFrom(bigInts).Draw(t, l+"bigv"))
		}
		switch s.S["type"] {
		case "string":
			if rapid.IntRange(0, 2).Draw(t, l) == 0 {
				s.S[rapid.SampledFrom([]string{"default", "example"}).Draw(t, l+"k")] = specgen.AmbiguousText(t, l+"v")
			}
		case "number":
			if rapid.IntRange(0, 2).Draw(t, l) == 0 {
				s.S[rapid.SampledFrom([]string{"default", "example", "maximum"}).Draw(t, l+"k")] = rapid.SampledFrom(specgen.AmbiguousNumbers).Draw(t, l+"v")
			}
		}
	}
}

func gen(t *rapid.T) Case {
	c := Case{Cmd: rapid.SampledFrom([]string{"expand", "expand", "flatten-minimal", "flatten-full", "flatten-expand", "mixin", "mixin", "init", "genspec"}).Draw(t, "cmd")}
	c.Compact = rapid.Bool().Draw(t, "compact")
	if c.Cmd == "genspec" && rapid.IntRange(0, 3).Draw(t, "genspec_rare") != 0 {
		c.Cmd = "expand"
	}
	if c.Cmd == "init" {
		c.Init = map[string]string{}
		for _, k := range []string{"title", "description", "version", "terms", "contact.name", "contact.url", "contact.email", "license.name", "license.url"} {
			if rapid.IntRange(0, 2).Draw(t, "has_"+k) > 0 {
				c.Init[k] = specgen.AmbiguousText(t, "init_"+k)
			}
		}
		return c
	}
	doc := specgen.Spec(t, cfg())
	// `swagger flatten` overflows the stack (a fatal error, not a panic) on a definition that is an array or map of
	// itself: listed finding, kept out by construction because the commands run inside this process
	specgen.BreakRecursiveContainers(doc)
	sprinkle(t, doc)
	c.Spec = specgen.JSONBytes(doc)
	if c.Cmd == "mixin" {
		n := rapid.IntRange(1, 2).Draw(t, "nmix")
		for i := 0; i < n; i++ {
			m := specgen.Spec(t, cfg())
			specgen.BreakRecursiveContainers(m)
			sprinkle(t, m)
			c.Mixins = append(c.Mixins, specgen.JSONBytes(m))
		}
	}
	return c
}

var tmpDir string

func tmp() string {
	if tmpDir == "" {
		d, err := os.MkdirTemp(pbt.Getenv("VERIF_SCRATCH", ""), "c19-")
		if err != nil {
			panic(err)
		}
		tmpDir = d
		pkg := filepath.Join(d, "scanpkg")
		_ = os.MkdirAll(pkg, 0o755)
		_ = os.WriteFile(filepath.Join(pkg, "go.mod"), []byte("module scanpkg\n\ngo 1.21\n"), 0o644)
		_ = os.WriteFile(filepath.Join(pkg, "doc.go"), []byte("// Package scanpkg has no annotations of its own.\npackage scanpkg\n\n// Thing is a plain type.\ntype Thing struct {\n\tID int `json:\"id\"`\n}\n"), 0o644)
	}
	return tmpDir
}

type result struct {
	tree any
	err  string
	raw  []byte
}

// runCmd executes the command on the given input rendering and output format.
func runCmd(c Case, inExt, outFmt string) (res result) {
	dir := tmp()
	out := filepath.Join(dir, "out."+outFmt)
	_ = os.Remove(out)
	write := func(name string, raw json.RawMessage) string {
		var tree any
		dec := json.NewDecoder(bytes.NewReader(raw))
		dec.UseNumber() // integers beyond 2^53 must reach the YAML rendering digit by digit
		_ = dec.Decode(&tree)
		if inExt == "yaml" {
			return swg.WriteTemp(dir, name+".yaml", specgen.YAML(tree))
		}
		return swg.WriteTemp(dir, name+".json", raw)
	}
	var err error
	panicked, pmsg, _ := pbt.Recover(func() {
		switch c.Cmd {
		case "expand":
			cmd := &commands.ExpandSpec{Compact: c.Compact, Output: flagsFilename(out), Format: outFmt}
			err = cmd.Execute([]string{write("in", c.Spec)})
		case "flatten-minimal", "flatten-full", "flatten-expand":
			cmd := &commands.FlattenSpec{Compact: c.Compact, Output: flagsFilename(out), Format: outFmt}
			switch c.Cmd {
			case "flatten-full":
				cmd.WithFlatten = []string{"full"}
			case "flatten-expand":
				cmd.WithExpand = true
			default:
				cmd.WithFlatten = []string{"minimal"}
			}
			err = cmd.Execute([]string{write("in", c.Spec)})
		case "mixin":
			cmd := &commands.MixinSpec{Compact: c.Compact, Output: flagsFilename(out), Format: outFmt}
			var mix []string
			for i, m := range c.Mixins {
				mix = append(mix, write(fmt.Sprintf("mix%d", i), m))
			}
			_, err = cmd.MixinFiles(write("in", c.Spec), mix, io.Discard)
		case "genspec":
			if outFmt == "yaml" {
				out = filepath.Join(dir, "out.yml")
				_ = os.Remove(out)
			}
			cmd := &generate.SpecFile{WorkDir: filepath.Join(dir, "scanpkg"), Compact: c.Compact, Output: flagsFilename(out), Input: flagsFilename(write("in", c.Spec))}
			err = cmd.Execute([]string{"./..."})
		case "init":
			idir := filepath.Join(dir, "initdir")
			_ = os.MkdirAll(idir, 0o755)
			cmd := &initcmd.Spec{Format: outFmt, Title: c.Init["title"], Description: c.Init["description"], Version: c.Init["version"], Terms: c.Init["terms"],
				Consumes: []string{"application/json"}, Produces: []string{"application/json"}, Schemes: []string{"http"}}
			cmd.Contact.Name, cmd.Contact.URL, cmd.Contact.Email = c.Init["contact.name"], c.Init["contact.url"], c.Init["contact.email"]
			cmd.License.Name, cmd.License.URL = c.Init["license.name"], c.Init["license.url"]
			if cmd.Title == "" {
				cmd.Title = "fixed title"
			}
			err = cmd.Execute([]string{idir})
			out = filepath.Join(idir, "swagger.json")
			if outFmt == "yaml" {
				out = filepath.Join(idir, "swagger.yml")
			}
		}
	})
	if panicked {
		return result{err: "panic: " + pmsg}
	}
	if err != nil {
		return result{err: "error: " + firstLine(err.Error())}
	}
	raw, rerr := os.ReadFile(out)
	if rerr != nil {
		return result{err: "no output: " + rerr.Error()}
	}
	res.raw = raw
	doc, lerr := loads.Spec(out)
	if lerr != nil {
		return result{err: "output does not load: " + firstLine(lerr.Error()), raw: raw}
	}
	dec := json.NewDecoder(bytes.NewReader(doc.Raw()))
	dec.UseNumber()
	if derr := dec.Decode(&res.tree); derr != nil {
		return result{err: "output raw JSON unreadable: " + derr.Error(), raw: raw}
	}
	return res
}

func firstLine(s string) string {
	if i := strings.Index(s, "\n"); i >= 0 {
		s = s[:i]
	}
	if len(s) > 260 {
		s = s[:40] + " … " + s[len(s)-210:]
	}
	return s
}

// yamlSecondOpinion decodes YAML text with plain yaml.v3 and stringifies keys.
func yamlSecondOpinion(raw []byte) (any, error) {
	var v any
	if err := yaml.Unmarshal(raw, &v); err != nil {
		return nil, err
	}
	return normYAML(v), nil
}

func normYAML(v any) any {
	switch x := v.(type) {
	case map[string]any:
		out := map[string]any{}
		for k, e := range x {
			out[k] = normYAML(e)
		}
		return out
	case map[any]any:
		out := map[string]any{}
		for k, e := range x {
			out[fmt.Sprint(k)] = normYAML(e)
		}
		return out
	case []any:
		out := make([]any, len(x))
		for i, e := range x {
			out[i] = normYAML(e)
		}
		return out
	case int:
		return json.Number(strconv.Itoa(x))
	case int64:
		return json.Number(strconv.FormatInt(x, 10))
	case uint64:
		return json.Number(strconv.FormatUint(x, 10))
	case float64:
		return json.Number(strconv.FormatFloat(x, 'g', -1, 64))
	}
	return v
}

// bigIntLiteral: an integer literal (digits only) of magnitude above 2^53.
func bigIntLiteral(n json.Number) bool {
	x := strings.TrimPrefix(string(n), "-")
	if x == "" || strings.Trim(x, "0123456789") != "" {
		return false
	}
	v, ok := new(big.Int).SetString(x, 10)
	return ok && v.Cmp(big.NewInt(1<<53)) > 0
}

// firstDiff returns the path of the first difference between two JSON trees
// ("" if equal); numbers compare by float64 value.
func firstDiff(a, b any, path string) string {
	na, aok := a.(json.Number)
	nb, bok := b.(json.Number)
	if aok || bok {
		if !(aok && bok) {
			return fmt.Sprintf("%s: %T(%v) vs %T(%v)", path, a, a, b, b)
		}
		if bigIntLiteral(na) || bigIntLiteral(nb) {
			// an integer beyond 2^53 written out digit by digit: compare exactly, a float64 detour must not hide
			ra, oka := new(big.Rat).SetString(string(na))
			rb, okb := new(big.Rat).SetString(string(nb))
			if !oka || !okb || ra.Cmp(rb) != 0 {
				return fmt.Sprintf("%s: number %v vs %v", path, na, nb)
			}
			return ""
		}
		fa, _ := na.Float64()
		fb, _ := nb.Float64()
		if fa != fb {
			return fmt.Sprintf("%s: number %v vs %v", path, na, nb)
		}
		return ""
	}
	switch x := a.(type) {
	case map[string]any:
		y, ok := b.(map[string]any)
		if !ok {
			return fmt.Sprintf("%s: object vs %T", path, b)
		}
		keys := map[string]bool{}
		for k := range x {
			keys[k] = true
		}
		for k := range y {
			keys[k] = true
		}
		ks := make([]string, 0, len(keys))
		for k := range keys {
			ks = append(ks, k)
		}
		sort.Strings(ks)
		for _, k := range ks {
			xv, xo := x[k]
			yv, yo := y[k]
			if !xo || !yo {
				return fmt.Sprintf("%s.%s: present=%v vs present=%v", path, strconv.Quote(k), xo, yo)
			}
			if d := firstDiff(xv, yv, path+"."+k); d != "" {
				return d
			}
		}
		return ""
	case []any:
		y, ok := b.([]any)
		if !ok || len(x) != len(y) {
			return fmt.Sprintf("%s: array length/type differs", path)
		}
		for i := range x {
			if d := firstDiff(x[i], y[i], fmt.Sprintf("%s[%d]", path, i)); d != "" {
				return d
			}
		}
		return ""
	case string:
		y, ok := b.(string)
		if !ok || x != y {
			return fmt.Sprintf("%s: %s vs %v(%T)", path, strconv.Quote(x), quoteAny(b), b)
		}
		return ""
	case bool:
		y, ok := b.(bool)
		if !ok || x != y {
			return fmt.Sprintf("%s: %v vs %v(%T)", path, x, b, b)
		}
		return ""
	case nil:
		if b != nil {
			return fmt.Sprintf("%s: null vs %v(%T)", path, b, b)
		}
		return ""
	}
	return fmt.Sprintf("%s: unexpected %T", path, a)
}

func quoteAny(v any) string {
	if s, ok := v.(string); ok {
		return strconv.Quote(s)
	}
	return fmt.Sprint(v)
}

// pathClass abstracts a difference path for the signature.
func pathClass(d string) string {
	p := d
	if i := strings.Index(p, ": "); i >= 0 {
		p = p[:i]
	}
	parts := strings.Split(p, ".")
	last := parts[len(parts)-1]
	if i := strings.Index(last, "["); i >= 0 {
		last = last[:i]
	}
	switch {
	case strings.HasPrefix(last, "x-") || strings.Contains(p, ".x-"):
		return "extension"
	case last == "description" || last == "title" || last == "summary" || last == "termsOfService" || last == "name" || last == "url" || last == "email" || last == "version":
		return "text:" + last
	case last == "default" || last == "example" || last == "enum" || last == "maximum" || last == "minimum":
		return "value:" + last
	}
	return "other"
}

// strClass names the feature of a string that makes YAML handling delicate.
func strClass(x string) string {
	switch {
	case x == "":
		return "empty"
	case strings.HasPrefix(x, "\n") || strings.HasPrefix(x, "\r"):
		return "leading-newline"
	case strings.TrimLeft(x, " \t") != x && strings.ContainsAny(x, "\n\r"):
		return "leading-blank-multiline"
	case strings.HasPrefix(x, "\u0085") || strings.HasPrefix(x, "\u2028") || strings.HasPrefix(x, "\u2029"):
		return "unicode-line-break" // the leading separator is what is lost, whatever follows
	case strings.Contains(x, "\r"):
		return "carriage-return"
	case strings.ContainsAny(x, "\u0085\u2028\u2029"):
		return "unicode-line-break"
	case strings.ContainsAny(x, "\x00\x07\x1b\x7f\ufeff"):
		return "control-char"
	case strings.HasSuffix(x, "\n") || strings.Contains(x, "\n"):
		return "multiline"
	case strings.TrimSpace(x) != x:
		return "edge-blank"
	}
	return "single-line"
}

func keyClass(d string) string {
	i := strings.Index(d, ": present=")
	if i < 0 {
		return "?"
	}
	p := d[:i]
	j := strings.LastIndex(p, ".\"")
	if j < 0 {
		return "?"
	}
	k, err := strconv.Unquote(p[j+1:])
	if err != nil {
		return "?"
	}
	if k == "" {
		return "empty-key(null-like key reloaded as null)"
	}
	if _, err := strconv.ParseFloat(k, 64); err == nil {
		return "number-like-key"
	}
	switch strings.ToLower(k) {
	case "yes", "no", "on", "off", "y", "n", "true", "false", "null", "~":
		return "bool-or-null-like-key"
	}
	if k == "$ref" {
		return "$ref"
	}
	return "other-key"
}

func kindOfDiff(d string) string {
	switch {
	case strings.Contains(d, "present="):
		return "key-missing:" + keyClass(d)
	case strings.Contains(d, "number"):
		if i := strings.LastIndex(d, ": number "); i >= 0 {
			if f := strings.Fields(d[i+9:]); len(f) == 3 && (bigIntLiteral(json.Number(f[0])) || bigIntLiteral(json.Number(f[2]))) {
				return "integer-above-2^53-rounded"
			}
		}
		return "number"
	case strings.Contains(d, "(bool)") || strings.Contains(d, "(json.Number)") || strings.Contains(d, "null vs") || strings.Contains(d, "(<nil>)"):
		return "retyped-scalar"
	}
	if i := strings.Index(d, ": \""); i >= 0 {
		rest := d[i+2:]
		if j := strings.Index(rest, " vs "); j >= 0 {
			if orig, err := strconv.Unquote(rest[:j]); err == nil {
				return "string-changed:" + strClass(orig)
			}
		}
	}
	return "string-changed"
}

func errClass(e string) string {
	switch {
	case strings.Contains(e, "2002:merge"):
		return "unquoted-merge-indicator"
	case strings.Contains(e, "cannot unmarshal number") && strings.Contains(e, "of type int64"):
		return "integer-rounded-beyond-int64"
	case strings.Contains(e, "value out of range"):
		return "integer-beyond-int64"
	case strings.Contains(e, "control characters are not allowed"):
		return "control-character"
	case strings.Contains(e, "yaml: line ") || strings.Contains(e, "did not find expected") || strings.Contains(e, "could not find expected"):
		return "malformed-yaml-output"
	case strings.HasPrefix(e, "panic"):
		return "panic"
	}
	return "other"
}

func prio(c string) int {
	for i, x := range []string{"panic", "control-character", "integer-beyond-int64", "integer-rounded-beyond-int64", "unquoted-merge-indicator", "malformed-yaml-output", "other"} {
		if x == c {
			return i
		}
	}
	return 99
}

func family(cmd string) string {
	switch cmd {
	case "genspec", "init":
		return cmd
	}
	return "expand/flatten/mixin"
}

func check(c Case) (o pbt.Outcome) {
	swg.Quiet()
	o.Class("cmd:" + c.Cmd)
	ins := []string{"json", "yaml"}
	if c.Cmd == "init" {
		ins = []string{"json"}
	}
	res := map[string]result{}
	for _, in := range ins {
		for _, out := range []string{"json", "yaml"} {
			res[in+">"+out] = runCmd(c, in, out)
		}
	}
	o.Evals = len(res)
	nerr := 0
	for _, r := range res {
		if r.err != "" {
			nerr++
		}
	}
	if nerr == len(res) {
		// the command rejects this input in every configuration: allowed
		o.Discard = true
		cl := errClass(res["json>json"].err)
		if strings.Contains(res["json>json"].err, "OrderSchemaItems") {
			cl = "go-openapi-spec-cannot-marshal-property-name"
		}
		o.Class("discard:command-error:" + cl)
		return
	}
	o.Sample = map[string]any{"cmd": c.Cmd, "compact": c.Compact, "bytes": len(c.Spec), "init": c.Init}
	if nerr > 0 {
		var parts []string
		for k, r := range res {
			parts = append(parts, k+" => "+r.err)
		}
		sort.Strings(parts)
		// root-cause class of the failure, by priority
		cls, stage := "", ""
		for _, k := range []string{"json>yaml", "yaml>yaml", "yaml>json", "json>json"} {
			if r, ok := res[k]; ok && r.err != "" {
				if c2 := errClass(r.err); cls == "" || prio(c2) < prio(cls) {
					cls, stage = c2, strings.SplitN(r.err, ":", 2)[0]
				}
			}
		}
		_ = stage
		o.Fail("C19|inconsistent-failure|"+family(c.Cmd)+"|"+cls, "command %s succeeds for some input/output format combinations only:\n  %s", c.Cmd, strings.Join(parts, "\n  "))
		return
	}
	// commands whose result varies between two identical runs are C07's subject
	for _, in := range ins {
		for _, out := range []string{"json", "yaml"} {
			if again := runCmd(c, in, out); again.err != "" || firstDiff(res[in+">"+out].tree, again.tree, "$") != "" {
				o.Class("skipped:command-not-deterministic")
				return
			}
		}
	}
	// a difference is only reported when both sides reproduce their own result five more times: two runs do not
	// rule out a command whose output depends on map iteration order (expansion of mutually recursive definitions)
	stable := func(keys ...string) bool {
		for _, k := range keys {
			io := strings.SplitN(k, ">", 2)
			for i := 0; i < 5; i++ {
				if again := runCmd(c, io[0], io[1]); again.err != "" || firstDiff(res[k].tree, again.tree, "$") != "" {
					o.Class("skipped:command-not-deterministic")
					return false
				}
			}
		}
		return true
	}
	// (a) same input, yaml output vs json output
	for _, in := range ins {
		if d := firstDiff(res[in+">json"].tree, res[in+">yaml"].tree, "$"); d != "" {
			if !stable(in+">json", in+">yaml") {
				return
			}
			// second opinion on the YAML text itself
			so, err := yamlSecondOpinion(res[in+">yaml"].raw)
			agree := err == nil && firstDiff(res[in+">json"].tree, toNumberTree(so), "$") != ""
			if c.Cmd == "genspec" || c.Cmd == "init" || agree || err != nil {
				o.Fail(fmt.Sprintf("C19|yaml-output-differs|%s|%s", family(c.Cmd), kindOfDiff(d)), "%s (input %s): YAML output reloads to a different document than the JSON output at %s\n--- yaml output (head) ---\n%s", c.Cmd, in, d, head(res[in+">yaml"].raw))
			} else {
				o.Class("oracle-disagreement:loader-vs-yaml.v3")
			}
		}
	}
	// (b) same output format, json input vs yaml input
	if len(ins) == 2 {
		for _, out := range []string{"json", "yaml"} {
			if d := firstDiff(res["json>"+out].tree, res["yaml>"+out].tree, "$"); d != "" {
				if !stable("json>"+out, "yaml>"+out) {
					return
				}
				o.Fail(fmt.Sprintf("C19|input-format-matters|%s|%s", family(c.Cmd), kindOfDiff(d)), "%s -> %s: result differs between the JSON and the YAML rendering of the same input at %s", c.Cmd, out, d)
			}
		}
	}
	amb := ambiguity(c)
	if len(amb) > 0 {
		o.NT(c.Cmd + "|" + strings.Join(amb, ",") + fmt.Sprintf("|compact=%v", c.Compact))
	}
	for _, a := range amb {
		o.Class("scalar:" + a)
	}
	return
}

func toNumberTree(v any) any { return v }

func head(b []byte) string {
	if len(b) > 1200 {
		return string(b[:1200]) + "…"
	}
	return string(b)
}

// ambiguity lists the classes of ambiguous scalars the case contains.
func ambiguity(c Case) []string {
	text := string(c.Spec)
	for _, m := range c.Mixins {
		text += string(m)
	}
	for _, v := range c.Init {
		b, _ := json.Marshal(v)
		text += string(b)
	}
	set := map[string]bool{}
	for cls, needles := range map[string][]string{
		"bool-like":   {`"yes"`, `"no"`, `"on"`, `"off"`, `"True"`, `"y"`, `"NO"`},
		"null-like":   {`"null"`, `"~"`, `"Null"`, `""`},
		"number-like": {`"1"`, `"1.0"`, `"1e3"`, `"0x1F"`, `"017"`, `"0o17"`, `".inf"`, `"NaN"`, `"-0"`, `"1_000"`},
		"time-like":   {`"2001-12-14`, `"12:30:45"`, `"1:30"`},
		"big-number":  {`1e+21`, `12345678901234567000`, `9007199254740992`, `1.7976931348623157e+308`, `5e-324`},
		"multiline":   {`\n`, `\r`},
		"indicator":   {`": `, `" #`, `"- `, `"[`, `"{`, `"&`, `"*`, `"!`, `"|`, `">`, `"%`, `"@`},
		"control":     {`\u0000`, `\u0007`, `\u001b`, `\u007f`, "\u0085", "\ufeff"},
		"non-ascii":   {"é", "名", "\U0001F600"},
		"space-edge":  {`" lead`, `trail "`, `"  both`},
	} {
		for _, n := range needles {
			if strings.Contains(text, n) {
				set[cls] = true
			}
		}
	}
	var out []string
	for k := range set {
		out = append(out, k)
	}
	sort.Strings(out)
	return out
}

func TestProp(t *testing.T) {
	pbt.Main(t, pbt.Prop[Case]{
		ID:   "C19",
		Rule: "driver-owned spec trees with YAML-ambiguous / hostile scalars in every free-text position, in string defaults and examples, in extension values (numbers > 2^53, 1e21, -0, tiny floats; strings resembling booleans, nulls, numbers, timestamps; multi-line, indicator characters, control and non-ASCII characters) and as property names, x command in {expand, flatten minimal/full/expand, mixin of 2-3 specs, generate spec with an input spec, init spec} x input rendering {JSON, fully quoted block YAML} x output {json, yaml} x {compact, pretty}; commands are called through their exported Execute/MixinFiles on temp files. Oracle: (a) reloading the YAML output (loads.Spec, cross-checked with plain yaml.v3) gives the JSON output's document, numbers compared by float64 value; (b) JSON and YAML inputs give equal results per output format; a command that fails must fail for all four combinations. Non-trivial: the case contains >=1 ambiguous scalar class; distinct by (command, class set, compact).",
		Assumptions: []string{
			"numbers are compared by float64 value (go-openapi decodes untyped numbers to float64 on every path)",
			"an input the command rejects in all four configurations is outside the domain (discarded, counted)",
		},
		Gen:   gen,
		Check: check,
	})
}
