package c19

import flags "github.com/jessevdk/go-flags"

func flagsFilename(s string) flags.Filename { return flags.Filename(s) }
