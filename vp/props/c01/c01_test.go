package c01

import (
	"encoding/json"
	"fmt"
	"net/url"
	"os"
	"path/filepath"
	"regexp"
	"sort"
	"strings"
	"testing"
	"unicode"

	"pgregory.net/rapid"

	"verif/internal/pbt"
	"verif/internal/specgen"
	"verif/internal/swg"
	"verif/internal/work"
)

type J = specgen.J
type A = specgen.A

// NameUse records where a spec-provided name was planted.
type NameUse struct {
	Kind string `json:"kind"` // definition | property | parameter | path-parameter | header | operation-id | tag | enum-value | response-header | security-scheme | discriminator
	Name string `json:"name"`
}

type Case struct {
	Spec    json.RawMessage `json:"spec"`
	Target  string          `json:"target"`  // model | server | client | cli
	Flatten string          `json:"flatten"` // minimal | full | expand
	Opts    []string        `json:"opts"`
	Names   []NameUse       `json:"names"`
	Features []string       `json:"features"`
	Excluded map[string]int `json:"excluded,omitempty"` // draws rejected because they lead into a listed known finding
}

// coreFeatures are drawn at random in every case. frontierFeatures are regions in which listed
// known findings live (see known_findings.json, "excluded by construction"); the search stays
// out of them so that it can go on behind those findings (VERIF_C01_FEATURES forces a set, for triage).
var coreFeatures = []string{"untyped", "schema-defaults", "examples", "x-nullable", "readonly", "minmaxprops", "schema-formats", "depth3", "file", "missing-opids", "tags", "meta", "security", "op-consumes", "polymorphism", "go-extensions"}
var frontierFeatures = []string{"alias-definitions", "body-array-of-free-form", "formatted-primitive-definition", "addl-props-ref-to-map", "cli-unrestricted", "ulid-format", "x-nullable-on-containers", "alias-of-escaped-name", "tuples", "x-go-name-on-object", "recursive-container", "flag-strategy-flag", "allof", "param-formats", "param-x-go-name", "poly-array-response", "expand-recursive", "expand-polymorphism", "alias-of-map", "nested-map-enum", "prop-named-as-definition", "hard-names-unfiltered"}
var featureList = append(append([]string{}, coreFeatures...), frontierFeatures...)

func hasLetter(s string) bool {
	for _, r := range s {
		if unicode.IsLetter(r) {
			return true
		}
	}
	return false
}

// mangleKey approximates the identity of a name after Go-name mangling: names with
// equal keys are never planted in one namespace (collisions are property C08's subject).
func mangleKey(s string) string {
	var sb strings.Builder
	for _, r := range strings.ToLower(s) {
		if (r >= 'a' && r <= 'z') || (r >= '0' && r <= '9') || r > 127 {
			sb.WriteRune(r)
		}
	}
	return sb.String()
}

var reToken = regexp.MustCompile("^[!#$%&'*+\\-.^_`|~0-9A-Za-z]+$")

type namer struct {
	used     map[string]map[string]bool // namespace -> mangled keys
	names    *[]NameUse
	alias    map[string]string // namespace -> namespace it shares
	unfilter bool              // frontier: do not avoid the names of listed known findings
	asciiProps bool            // cli: property names become unexported fields when they start with a caseless letter
	excluded map[string]int    // kind:rule -> draws rejected by a known-finding filter
}

var clientParamMethods = setOf("o", "string", "context", "httpclient", "writetorequest", "bindrequest", "httprequest", "withtimeout", "settimeout", "withcontext", "setcontext", "withhttpclient", "sethttpclient", "withdefaults", "setdefaults")
var modelMethods = setOf("validate", "contextvalidate", "marshalbinary", "unmarshalbinary", "marshaljson", "unmarshaljson")
var templateImports = setOf("err", "res", "ok", "raw", "rr", "route", "fds", "qs", "qr", "qv", "hdr", "tpe", "file", "header", "http", "params", "runtime", "swag", "errors", "strfmt", "middleware", "security", "spec", "loads", "validate", "context", "io", "json", "fmt", "strings", "os", "url", "net", "flags", "server", "tls", "log", "time", "sync", "atomic", "signal", "strconv", "golangswaggerpaths", "yamlpc", "interpose", "cr", "cobra", "viper", "client", "models", "httptransport", "operations", "restapi", "path", "homedir", "bytes", "reader", "bufio", "multipart", "mime")
var badTags = setOf("principal", "api", "models", "bool", "error", "string", "nil", "len", "new", "true", "false", "append", "make", "init", "main", "o", "restapi", "cli", "io", "os", "strconv", "context")
var cliImports = setOf("cmd", "cli", "args", "command", "flag", "flags", "config", "json", "fmt", "swag", "cobra", "viper", "strfmt", "errors", "runtime", "client", "models", "httptransport", "os", "log", "path", "homedir")
var rePlainIdent = regexp.MustCompile(`^[A-Za-z_][A-Za-z0-9_.\-]*$`)

var reSimpleWord = regexp.MustCompile(`^[a-z][a-z0-9]{2,}$`)

// isSimpleWord: a lower-case word that is no Go keyword, predeclared identifier or import name of the model templates.
func isSimpleWord(s string) bool {
	if !reSimpleWord.MatchString(s) || goKeywords[s] || predeclared[s] {
		return false
	}
	switch s {
	case "json", "context", "errors", "runtime", "strfmt", "swag", "validate", "consumer", "producer", "io", "strconv", "data", "bytes", "fmt", "result", "value", "values", "reader", "res", "err", "raw", "buf", "dec", "base", "formats":
		return false
	}
	return true
}

func firstAlnumIsDigit(s string) bool {
	for _, r := range s {
		if unicode.IsDigit(r) {
			return true
		}
		if unicode.IsLetter(r) {
			return false
		}
	}
	return false
}

func isASCII(s string) bool {
	for _, r := range s {
		if r > 127 {
			return false
		}
	}
	return true
}

// caselessInitial: the first letter has no upper-case form (the templates export names by upper-casing it).
func caselessInitial(s string) bool {
	for _, r := range s {
		if unicode.IsLetter(r) {
			return !unicode.IsUpper(r) && unicode.ToUpper(r) == r
		}
		if unicode.IsDigit(r) {
			return false
		}
	}
	return false
}

// knownBad names the listed known finding a name of this kind would run into ("" when none).
func knownBad(kind, s string) string {
	k := mangleKey(s)
	if strings.Contains(s, "%") && (kind == "definition" || kind == "property" || kind == "discriminator" || kind == "subtype" || kind == "basetype") {
		return "percent-in-json-pointer"
	}
	switch kind {
	case "definition":
		if strings.ContainsAny(s, "/~") {
			return "pointer-escape-in-definition-name"
		}
		if strings.Contains(s, `"`) {
			return "quote-in-name"
		}
		if modelMethods[k] {
			return "definition-named-like-model-method"
		}
		if firstAlnumIsDigit(s) {
			return "definition-leading-digit"
		}
		if caselessInitial(s) {
			return "caseless-initial"
		}
	case "subtype":
		if !rePlainIdent.MatchString(s) {
			return "subtype-name-needs-escaping"
		}
	case "basetype":
		if !isSimpleWord(s) {
			return "base-type-name"
		}
	case "polymorphic-property":
		if c := nameClass(s); c != "word" && c != "separators" && c != "single-letter" || !isASCII(s) {
			return "polymorphic-property-name"
		}
		if goKeywords[strings.ToLower(s)] || predeclared[strings.ToLower(s)] || modelMethods[k] || strings.HasPrefix(k, "set") || (nameClass(s) != "separators" && !isSimpleWord(strings.ToLower(s))) {
			return "polymorphic-property-name"
		}
	case "property", "discriminator":
		if kind == "discriminator" {
			if c := nameClass(s); c != "word" && c != "separators" || !isASCII(s) || goKeywords[strings.ToLower(s)] || predeclared[strings.ToLower(s)] || strings.HasPrefix(k, "set") {
				return "polymorphic-property-name"
			}
		}
		if strings.ContainsAny(s, "\"\\`") {
			return "quote-in-property-name"
		}
		if modelMethods[k] {
			return "property-named-like-model-method"
		}
		if !unicode.IsDigit([]rune(s)[0]) && firstAlnumIsDigit(s) {
			return "property-symbol-then-digit"
		}
		if kind == "discriminator" && unicode.IsDigit([]rune(s)[0]) {
			return "discriminator-leading-digit"
		}
	case "parameter", "path-parameter":
		if !isASCII(s) {
			return "non-ascii-parameter-name"
		}
		if clientParamMethods[k] || predeclared[strings.ToLower(s)] || templateImports[k] || goKeywords[strings.ToLower(s)] {
			return "parameter-named-like-template-identifier"
		}
		for _, r := range s {
			if unicode.IsDigit(r) {
				return "parameter-leading-digit"
			}
			if unicode.IsLetter(r) {
				break
			}
		}
		if kind == "path-parameter" && (k == "url" || k == "errors" || predeclared[strings.ToLower(s)] || goKeywords[strings.ToLower(s)] || strings.Contains(s, `"`)) {
			return "path-parameter-named-like-template-identifier"
		}
	case "operation-id", "security-scheme":
		if strings.Contains(s, `"`) {
			return "quote-in-name"
		}
		if caselessInitial(s) {
			return "caseless-initial"
		}
	case "tag":
		if !isASCII(s) || badTags[k] || templateImports[k] || predeclared[strings.ToLower(s)] {
			return "tag-not-a-package-name"
		}
	case "enum-value", "response-header":
		if strings.Contains(s, "`") {
			return "back-quote-in-name"
		}
	}
	return ""
}

// draw returns a fresh name of the kind, unique (by mangled key) inside namespace ns.
func (n *namer) draw(t *rapid.T, label, kind, ns string, ok func(string) bool) string {
	if a, has := n.alias[ns]; has {
		ns = a
	}
	u := n.used[ns]
	if u == nil {
		u = map[string]bool{}
		n.used[ns] = u
	}
	for i := 0; ; i++ {
		l := fmt.Sprintf("%s_try%d", label, i)
		var s string
		if i > 12 {
			s = fmt.Sprintf("%s%d", specgen.PlainName(t, l), len(u))
		} else if rapid.IntRange(0, 9).Draw(t, l+"_plain") < 2 || os.Getenv("VERIF_C01_PLAIN") != "" {
			s = specgen.PlainName(t, l)
		} else if specgen.Uniform(t, l+"_compose", 10) == 0 {
			s = specgen.Pick(t, l+"_a", specgen.NastyPool) + specgen.Pick(t, l+"_sep", []string{"_", "-", " ", ".", ""}) + specgen.Pick(t, l+"_b", specgen.NastyPool)
		} else {
			s = specgen.Pick(t, l, specgen.NastyPool)
		}
		k := mangleKey(s)
		if !hasLetter(s) || k == "" || u[k] || (ok != nil && !ok(s)) {
			continue
		}
		if (kind == "parameter" || kind == "path-parameter" || kind == "header") && (strings.HasPrefix(k, "set") || strings.HasPrefix(k, "with")) {
			continue // Set<x> / With<x> collide with the accessors generated for a parameter named x (C08's subject)
		}
		if (kind == "parameter" || kind == "path-parameter") && strings.HasPrefix(k, "x") && len(k) > 1 {
			continue // x<name> may collide with the header X-<name> of the same operation (C08's subject)
		}
		if (kind == "parameter" || kind == "path-parameter" || kind == "header") && k == "body" {
			continue // would collide with the body parameter (C08's subject)
		}
		if kind == "operation-id" && (k == "new" || strings.HasSuffix(k, "params") || strings.HasSuffix(k, "parameters") || strings.HasSuffix(k, "responses") || strings.HasSuffix(k, "urlbuilder") || strings.HasSuffix(k, "body") || strings.HasPrefix(k, "new") || strings.HasSuffix(k, "default") || strings.HasSuffix(k, "ok") || strings.HasSuffix(k, "created") || strings.HasSuffix(k, "nocontent") || strings.HasSuffix(k, "handler") || strings.HasSuffix(k, "handlerfunc") || strings.HasSuffix(k, "url")) {
			continue // <op>Params / New<op> ... collide with the types generated for another operation (C08's subject)
		}
		if !n.unfilter {
			rule := knownBad(kind, s)
			if rule == "" && n.asciiProps && (kind == "property" || kind == "definition") && !isASCII(s) {
				rule = "cli-non-ascii-name"
			}
			if rule == "" && n.asciiProps && strings.ContainsAny(s, "\"\\`") {
				rule = "cli-quote-in-name"
			}
			if rule == "" && n.asciiProps && kind == "tag" && cliImports[mangleKey(s)] {
				rule = "cli-tag-named-like-import"
			}
			if rule != "" {
				n.excluded[kind+":"+rule]++
				continue
			}
		}
		u[k] = true
		*n.names = append(*n.names, NameUse{Kind: kind, Name: s})
		return s
	}
}

func jptr(s string) string {
	s = strings.ReplaceAll(strings.ReplaceAll(s, "~", "~0"), "/", "~1")
	return (&url.URL{Path: s}).EscapedPath()
}

func chance(t *rapid.T, label string, pct int) bool {
	return rapid.IntRange(1, 100).Draw(t, label) <= pct
}

var reNoPathChars = regexp.MustCompile(`^[^/{}?#%]+$`)

func gen(t *rapid.T) Case {
	var c Case
	nm := &namer{used: map[string]map[string]bool{}, names: &c.Names, alias: map[string]string{}, excluded: map[string]int{}}
	c.Target = specgen.Pick(t, "target", []string{"model", "server", "server", "client", "client", "cli"})
	if ft := os.Getenv("VERIF_C01_TARGET"); ft == "nocli" {
		if c.Target == "cli" {
			c.Target = "client"
		}
	} else if ft != "" {
		c.Target = ft
	}
	feats := map[string]bool{}
	for i, f := range featureList {
		on := i < len(coreFeatures) && specgen.Uniform(t, fmt.Sprintf("feat%d", i), 100) < 50
		if forced := os.Getenv("VERIF_C01_FEATURES"); forced != "" {
			on = strings.Contains(","+forced+",", ","+f+",") || (strings.Contains(","+forced+",", ",all,") && i < len(coreFeatures)) || forced == "frontier"
		}
		if on {
			feats[f] = true
			c.Features = append(c.Features, f)
		}
	}
	cliCore := c.Target == "cli" && !feats["cli-unrestricted"]
	if cliCore {
		// the cli templates only cope with a small fragment (listed findings): flat schemas, no maps, no array defaults
		for _, f := range []string{"untyped", "x-nullable", "minmaxprops", "schema-formats", "depth3", "file", "op-consumes", "polymorphism", "go-extensions"} {
			delete(feats, f)
		}
		var keep []string
		for _, f := range c.Features {
			if feats[f] {
				keep = append(keep, f)
			}
		}
		c.Features = append(keep, "cli-core")
	}
	nm.unfilter = feats["hard-names-unfiltered"]
	nm.asciiProps = cliCore
	if !feats["prop-named-as-definition"] {
		nm.alias["defs"] = "props" // an object with additionalProperties names its map field after its type
	}
	formats := []string{"date", "date-time", "uuid", "email", "byte", "password", "uri"}
	pformats := formats
	if feats["schema-formats"] {
		formats = nil
		for _, f := range specgen.ModelFormats {
			// strfmt.ULID has no Validate method: a body parameter of that format does not compile (listed finding)
			if f != "ulid" || feats["ulid-format"] {
				formats = append(formats, f)
			}
		}
	}
	if feats["param-formats"] {
		pformats = specgen.ModelFormats
	}
	depth := 2
	if feats["depth3"] {
		depth = 3
	}
	cfg := &specgen.SpecCfg{
		Schema: specgen.Opts{
			// property names: unique over the whole document (keeps every object collision free)
			Name: func(t *rapid.T, l string) string {
				return nm.draw(t, l, "property", "props", func(s string) bool { return !strings.Contains(s, `"`) })
			},
			MaxDepth: depth, AllOf: feats["allof"], AddlProps: true, Defaults: feats["schema-defaults"], Examples: feats["examples"], Tuples: feats["tuples"], Untyped: feats["untyped"],
			XNullable: feats["x-nullable"], ReadOnly: feats["readonly"], MinMaxProps: feats["minmaxprops"], Formats: formats, Descr: true,
		},
		Simple:  specgen.SimpleOpts{Defaults: true, MaxDepth: 2, File: feats["file"], Formats: pformats},
		MinDefs: 1, MaxDefs: 6, MinPaths: 1, MaxPaths: 4, MaxParams: 3,
		ParamName: func(t *rapid.T, l string) string {
			// one namespace per document is stricter than needed but keeps operations collision free
			return nm.draw(t, l, "parameter", "params", nil)
		},
		OpID:    func(t *rapid.T, l string) string { return nm.draw(t, l, "operation-id", "opids", nil) },
		TagName: func(t *rapid.T, l string) string { return nm.draw(t, l, "tag", "tags", nil) },
		MissingOpIDs: feats["missing-opids"], Tags: feats["tags"], Meta: feats["meta"], Security: feats["security"], SharedParams: true, RespHeaders: true, FormData: true, Body: true,
		Deprecated: true, OpConsumes: feats["op-consumes"], DefaultResponse: true, AcyclicRefs: true, UniqueParamNames: true,
	}
	if cliCore {
		cfg.Schema.MaxDepth, cfg.Schema.AddlProps = 1, false
	}
	doc := specgen.Spec(t, cfg)
	if cliCore {
		// no defaults on arrays (parameters, headers, schemas)
		walk(doc, func(o J) {
			if o["type"] == "array" {
				delete(o, "default")
				// and no formatted items in array parameters / headers (flag value pointer mismatch)
				if it, ok := o["items"].(J); ok && o["in"] != nil || o["collectionFormat"] != nil {
					if it != nil {
						delete(it, "format")
					}
				}
			}
		})
		for _, op := range specgen.Ops(doc) {
			walk(op.Op["responses"], func(o J) {
				if hs, ok := o["headers"].(J); ok {
					for _, k := range work.SortedKeys(hs) {
						if h, ok := hs[k].(J); ok && h["type"] == "array" {
							if it, ok := h["items"].(J); ok {
								delete(it, "format")
							}
						}
					}
				}
			})
			for _, p := range specgen.EffectiveParams(op) {
				if p.P["type"] == "array" {
					if it, ok := p.P["items"].(J); ok {
						delete(it, "format")
					}
				}
			}
		}
	}
	// header parameters must be HTTP tokens: rename those that are not
	for _, op := range specgen.Ops(doc) {
		for _, holder := range []J{op.Item, op.Op} {
			ps, _ := holder["parameters"].(A)
			for i, p := range ps {
				pj, _ := p.(J)
				if pj == nil || pj["in"] != "header" {
					continue
				}
				name, _ := pj["name"].(string)
				if !reToken.MatchString(name) {
					pj["name"] = "X-" + nm.draw(t, fmt.Sprintf("%s_%s_hdr%d", op.Path, op.Method, i), "header", "params", reToken.MatchString)
				}
			}
		}
	}
	// the flatten mode is drawn first: two documented / listed limitations of --with-expand are avoided by construction
	c.Flatten = specgen.Pick(t, "flatten", []string{"minimal", "minimal", "full", "expand"})
	if feats["polymorphism"] && (c.Flatten != "expand" || feats["expand-polymorphism"]) {
		addPolymorphic(t, doc, nm, feats["poly-array-response"])
	}
	sanitize(doc, feats, c.Flatten)
	renameDefinitions(t, doc, nm, feats["alias-of-escaped-name"])
	renamePathParams(t, doc, nm)
	renameSecurity(t, doc, nm)
	renameResponseHeaders(t, doc, nm)
	nastyEnums(t, doc, nm)
	if feats["go-extensions"] {
		goExtensions(t, doc, feats["param-x-go-name"], feats["x-go-name-on-object"])
	}
	// names the generator de-conflicts with dedicated code (the client's timeout field and its accessors): planted now
	// and then, alone and in the combinations that walk the rename chain
	if chance(t, "timeoutfamily", 30) {
		family := []string{"timeout", "Timeout", "_timeout", "timeout-", "TIMEOUT", "request-timeout", "RequestTimeout", "request_timeout", "requestTimeout", "http_request_timeout"}
		ops := specgen.Ops(doc)
		if len(ops) > 0 {
			op := ops[specgen.Uniform(t, "tf_op", len(ops))]
			ps, _ := op.Op["parameters"].(A)
			used := map[string]bool{}
			for _, p := range specgen.EffectiveParams(op) {
				k := mangleKey(fmt.Sprint(p.P["name"]))
				used[k] = true
				used[strings.TrimPrefix(k, "x")] = true
			}
			n := rapid.IntRange(1, 2).Draw(t, "tf_n")
			if c.Target == "cli" {
				n = 1
			}
			for i, p := range ps {
				pj, ok := p.(J)
				if !ok || n == 0 || pj["in"] == "body" || pj["in"] == "path" {
					continue
				}
				name := specgen.Pick(t, fmt.Sprintf("tf_name%d", i), family)
				if used[mangleKey(name)] || used["x"+mangleKey(name)] {
					continue
				}
				used[mangleKey(name)] = true
				used["x"+mangleKey(name)] = true
				if pj["in"] == "header" {
					name = "X-" + name
				}
				pj["name"] = name
				c.Names = append(c.Names, NameUse{Kind: "parameter", Name: name})
				n--
			}
		}
	}
	c.Spec = specgen.JSONBytes(doc)
	c.Excluded = nm.excluded
	optPool := map[string][]string{
		"model":  {"--struct-tags=yaml", "--keep-spec-order", "--strict-additional-properties", "--rooted-error-path", "--additional-initialism=XYZ", "--all-definitions"},
		"server": {"--skip-tag-packages", "--strict-responders", "--struct-tags=yaml", "--principal=verifgen/auth.Principal", "--principal-iface", "--with-context", "--exclude-main", "--exclude-spec", "--flag-strategy=pflag", "--flag-strategy=flag", "--default-scheme=https", "--keep-spec-order", "--strict-additional-properties", "--rooted-error-path", "--regenerate-configureapi", "--compatibility-mode=intermediate"},
		"client": {"--skip-tag-packages", "--struct-tags=yaml", "--principal=verifgen/auth.Principal", "--default-scheme=https", "--keep-spec-order", "--strict-additional-properties", "--rooted-error-path", "--additional-initialism=XYZ"},
		"cli":    {"--skip-tag-packages", "--struct-tags=yaml", "--default-scheme=https", "--keep-spec-order", "--cli-app-name=verifcli"},
	}[c.Target]
	for i, o := range optPool {
		if o == "--flag-strategy=flag" && !feats["flag-strategy-flag"] {
			continue
		}
		if chance(t, fmt.Sprintf("opt%d", i), 22) && os.Getenv("VERIF_C01_OPTS") != "none" {
			if o == "--principal-iface" {
				// an interface principal replaces a struct one
				var keep []string
				for _, k := range c.Opts {
					if !strings.HasPrefix(k, "--principal") {
						keep = append(keep, k)
					}
				}
				c.Opts = append(keep, "--principal=verifgen/auth.PrincipalIface", "--principal-is-interface")
				continue
			}
			if strings.HasPrefix(o, "--flag-strategy") && hasPrefix(c.Opts, "--flag-strategy") {
				continue
			}
			c.Opts = append(c.Opts, o)
		}
	}
	return c
}

func hasPrefix(xs []string, p string) bool {
	for _, x := range xs {
		if strings.HasPrefix(x, p) {
			return true
		}
	}
	return false
}

// addPolymorphic: a discriminated base, subtypes and a holder, all with drawn names.
func addPolymorphic(t *rapid.T, doc J, nm *namer, arrayResponse bool) {
	defs, _ := doc["definitions"].(J)
	if defs == nil {
		defs = J{}
		doc["definitions"] = defs
	}
	if defs["Polybase"] != nil {
		return
	}
	prop := func(l string) string {
		return nm.draw(t, l, "polymorphic-property", "props", func(s string) bool { return !strings.Contains(s, `"`) })
	}
	disc := nm.draw(t, "poly_disc", "discriminator", "props", func(s string) bool { return !strings.Contains(s, `"`) })
	bprops := J{disc: J{"type": "string"}}
	if chance(t, "poly_bextra", 60) {
		bprops[prop("poly_bp")] = specgen.Schema(t, "poly_bps", &specgen.Opts{MaxDepth: 1, Formats: specgen.ModelFormats}, 1)
	}
	defs["Polybase"] = J{"type": "object", "discriminator": disc, "properties": bprops, "required": A{disc}}
	ns := rapid.IntRange(1, 3).Draw(t, "poly_ns")
	for i := 0; i < ns; i++ {
		own := J{"type": "object", "properties": J{prop(fmt.Sprintf("poly_s%d_p", i)): specgen.Schema(t, fmt.Sprintf("poly_s%d_ps", i), &specgen.Opts{MaxDepth: 1, Formats: specgen.ModelFormats}, 1)}}
		defs[fmt.Sprintf("Polysub%d", i)] = J{"allOf": A{J{"$ref": "#/definitions/Polybase"}, own}}
	}
	defs["Polyholder"] = J{"type": "object", "properties": J{
		prop("poly_h_one"):  J{"$ref": "#/definitions/Polybase"},
		prop("poly_h_many"): J{"type": "array", "items": J{"$ref": "#/definitions/Polybase"}},
		prop("poly_h_map"):  J{"type": "object", "additionalProperties": J{"$ref": "#/definitions/Polybase"}},
	}}
	// make the polymorphic types reachable from an operation
	paths, _ := doc["paths"].(J)
	paths["/polyholder"] = J{"post": J{
		"parameters": A{J{"name": "body", "in": "body", "schema": J{"$ref": "#/definitions/Polyholder"}}},
		"responses":  J{"200": J{"description": "ok", "schema": J{"$ref": "#/definitions/Polybase"}}},
	}}
	if arrayResponse {
		paths["/polyholder"].(J)["post"].(J)["responses"].(J)["201"] = J{"description": "many", "schema": J{"type": "array", "items": J{"$ref": "#/definitions/Polybase"}}}
	}
}

// sanitize keeps the document out of the regions of listed known findings (unless the
// matching frontier feature is on).
func sanitize(doc J, feats map[string]bool, flatten string) {
	defs, _ := doc["definitions"].(J)
	if !feats["alias-definitions"] {
		// definitions that are a bare $ref to another definition (type aliases) take part in several listed findings
		// (alias of a free-form map, of a name that needs escaping, of a non-struct used in inline schemas): none in Core
		for _, n := range work.SortedKeys(defs) {
			if d, ok := defs[n].(J); ok {
				if _, isRef := d["$ref"].(string); isRef {
					defs[n] = J{"type": "string"}
				}
			}
		}
	}
	if !feats["alias-of-map"] {
		// a definition that is a bare $ref to a free-form map definition: rendered as a type alias whose holder calls a Validate method that does not exist
		for _, n := range work.SortedKeys(defs) {
			d, _ := defs[n].(J)
			r, isRef := d["$ref"].(string)
			if !isRef {
				continue
			}
			target := d
			for hops := 0; hops < 10; hops++ {
				tr, ok := target["$ref"].(string)
				if !ok {
					break
				}
				nt, _ := defs[strings.TrimPrefix(tr, "#/definitions/")].(J)
				if nt == nil {
					break
				}
				target = nt
			}
			_ = r
			if _, hasProps := target["properties"]; !hasProps && target["type"] == "object" {
				if ap, has := target["additionalProperties"]; !has || ap == true || isEmptyObj(ap) {
					defs[n] = J{"type": "object", "additionalProperties": true}
				}
			}
		}
	}
	if !feats["nested-map-enum"] {
		// an enum on a schema reached through two or more container hops (array of arrays, map of arrays...): the generated
		// validator calls a validate...Enum method that is not generated
		var rec func(s J, hops int, viaMap bool)
		rec = func(s J, hops int, viaMap bool) {
			if hops >= 2 {
				delete(s, "enum")
			}
			if _, isRef := s["$ref"]; isRef && hops >= 3 && viaMap {
				delete(s, "$ref")
				s["type"] = "string"
			}
			if hops >= 3 && viaMap {
				// and validations three hops deep index the receiver instead of its map field
				for _, k := range []string{"format", "minimum", "maximum", "exclusiveMinimum", "exclusiveMaximum", "multipleOf", "pattern", "minLength", "maxLength", "minItems", "maxItems", "uniqueItems"} {
					delete(s, k)
				}
			}
			for _, k := range work.SortedKeys(s) {
				switch v := s[k].(type) {
				case J:
					switch k {
					case "additionalProperties":
						rec(v, hops+1, true)
					case "items":
						rec(v, hops+1, viaMap)
					case "properties":
						for _, pk := range work.SortedKeys(v) {
							if pj, ok := v[pk].(J); ok {
								rec(pj, 0, false)
							}
						}
					default:
						rec(v, 0, false)
					}
				case A:
					for _, e := range v {
						if ej, ok := e.(J); ok {
							rec(ej, 0, false)
						}
					}
				}
			}
		}
		rec(doc, 0, false)
	}
	if !feats["x-nullable-on-containers"] {
		walk(doc, func(o J) {
			if _, has := o["x-nullable"]; !has {
				return
			}
			switch o["type"] {
			case "string", "integer", "number", "boolean":
			default:
				delete(o, "x-nullable")
			}
		})
	}
	if !feats["formatted-primitive-definition"] {
		// a definition that is a formatted string: used as array item of an inline schema, its validation calls a String method the named type lacks
		for _, n := range work.SortedKeys(defs) {
			if d, ok := defs[n].(J); ok && d["type"] == "string" {
				delete(d, "format")
			}
		}
	}
	if !feats["addl-props-ref-to-map"] {
		// map values that are a $ref to a definition without properties (map, array, primitive alias): the
		// generated (Context)Validate ranges over the map with an unused key
		isStructDef := func(r any) bool {
			rs, ok := r.(string)
			if !ok {
				return true
			}
			t, _ := defs[strings.TrimPrefix(rs, "#/definitions/")].(J)
			for hops := 0; t != nil && hops < 10; hops++ {
				if nr, ok := t["$ref"].(string); ok {
					t, _ = defs[strings.TrimPrefix(nr, "#/definitions/")].(J)
					continue
				}
				break
			}
			if t == nil {
				return true
			}
			_, hasProps := t["properties"]
			_, hasDisc := t["discriminator"]
			return hasProps || hasDisc
		}
		walk(doc, func(o J) {
			if ap, ok := o["additionalProperties"].(J); ok && !isStructDef(ap["$ref"]) {
				o["additionalProperties"] = J{"type": "string"}
			}
		})
	}
	if !feats["body-array-of-free-form"] {
		// a body parameter that is an array of free-form objects: the generated validation declares an unused index
		for _, op := range specgen.Ops(doc) {
			for _, p := range specgen.EffectiveParams(op) {
				sch, _ := p.P["schema"].(J)
				if sch == nil || sch["type"] != "array" {
					continue
				}
				if it, ok := sch["items"].(J); ok && it["type"] == "object" {
					if _, hasProps := it["properties"]; !hasProps {
						sch["items"] = J{"type": "string"}
					}
				}
				// same defect with any item type that needs no validation of its own: no length constraints on body arrays
				delete(sch, "minItems")
				delete(sch, "maxItems")
				delete(sch, "uniqueItems")
			}
		}
	}
	if !feats["recursive-container"] {
		// a definition that contains itself other than through a property (map of itself, array of itself) overflows the stack
		for _, n := range work.SortedKeys(defs) {
			self := "#/definitions/" + n
			var rec func(v any)
			rec = func(v any) {
				switch x := v.(type) {
				case J:
					if x["$ref"] == self {
						delete(x, "$ref")
						x["type"] = "string"
					}
					for _, k := range work.SortedKeys(x) {
						if k != "properties" {
							rec(x[k])
						}
					}
				case A:
					for _, e := range x {
						rec(e)
					}
				}
			}
			rec(defs[n])
		}
	}
	if flatten == "expand" && !feats["expand-recursive"] {
		// --with-expand overflows the stack on a definition that refers to itself
		for _, n := range work.SortedKeys(defs) {
			self := "#/definitions/" + n
			walk(defs[n], func(o J) {
				if o["$ref"] == self {
					delete(o, "$ref")
					o["type"] = "string"
				}
			})
		}
	}
}

func isEmptyObj(v any) bool {
	j, ok := v.(J)
	return ok && len(j) == 0
}

func walk(v any, f func(J)) {
	switch x := v.(type) {
	case J:
		f(x)
		for _, k := range work.SortedKeys(x) {
			walk(x[k], f)
		}
	case A:
		for _, e := range x {
			walk(e, f)
		}
	}
}

func renameDefinitions(t *rapid.T, doc J, nm *namer, aliasEscaped bool) {
	defs, _ := doc["definitions"].(J)
	if len(defs) == 0 {
		return
	}
	ren := map[string]string{}
	for i, old := range work.SortedKeys(defs) {
		kind := "definition"
		switch {
		case old == "Polybase":
			kind = "basetype"
		case strings.HasPrefix(old, "Polysub"):
			kind = "subtype"
		}
		ren[old] = nm.draw(t, fmt.Sprintf("defname%d", i), kind, "defs", nil)
	}
	nd := J{}
	for old, s := range defs {
		// an alias (bare $ref definition) of a definition whose name needs escaping in a JSON pointer is
		// rendered with the escaped text as type name
		if r, ok := s.(J)["$ref"].(string); ok && !aliasEscaped {
			if tn, ok := ren[strings.TrimPrefix(r, "#/definitions/")]; ok && jptr(tn) != tn {
				s = J{"type": "string"}
			}
		}
		nd[ren[old]] = s
	}
	doc["definitions"] = nd
	walk(doc, func(o J) {
		if r, ok := o["$ref"].(string); ok && strings.HasPrefix(r, "#/definitions/") {
			if n, ok := ren[strings.TrimPrefix(r, "#/definitions/")]; ok {
				o["$ref"] = "#/definitions/" + jptr(n)
			}
		}
	})
}

func renamePathParams(t *rapid.T, doc J, nm *namer) {
	paths, _ := doc["paths"].(J)
	np := J{}
	for pi, p := range work.SortedKeys(paths) {
		item, _ := paths[p].(J)
		newPath := p
		segs := strings.Split(p, "/")
		for si, seg := range segs {
			if !strings.HasPrefix(seg, "{") || !chance(t, fmt.Sprintf("pp%d_%d_ren", pi, si), 60) {
				continue
			}
			old := strings.Trim(seg, "{}")
			n := nm.draw(t, fmt.Sprintf("pp%d_%d", pi, si), "path-parameter", "params", reNoPathChars.MatchString)
			segs[si] = "{" + n + "}"
			walk(item, func(o J) {
				if o["in"] == "path" && o["name"] == old {
					o["name"] = n
				}
			})
		}
		newPath = strings.Join(segs, "/")
		np[newPath] = item
	}
	doc["paths"] = np
}

func renameSecurity(t *rapid.T, doc J, nm *namer) {
	sd, _ := doc["securityDefinitions"].(J)
	if len(sd) == 0 {
		return
	}
	ren := map[string]string{}
	nsd := J{}
	for i, old := range work.SortedKeys(sd) {
		ren[old] = nm.draw(t, fmt.Sprintf("secname%d", i), "security-scheme", "sec", nil)
		nsd[ren[old]] = sd[old]
	}
	doc["securityDefinitions"] = nsd
	fix := func(holder J) {
		reqs, _ := holder["security"].(A)
		for i, r := range reqs {
			rj, _ := r.(J)
			nr := J{}
			for k, v := range rj {
				nr[ren[k]] = v
			}
			reqs[i] = nr
		}
	}
	fix(doc)
	for _, op := range specgen.Ops(doc) {
		fix(op.Op)
	}
}

func renameResponseHeaders(t *rapid.T, doc J, nm *namer) {
	for oi, op := range specgen.Ops(doc) {
		resps, _ := op.Op["responses"].(J)
		for _, code := range work.SortedKeys(resps) {
			r, _ := resps[code].(J)
			hs, _ := r["headers"].(J)
			if len(hs) == 0 {
				continue
			}
			nh := J{}
			ns := fmt.Sprintf("resphdr-%d-%s", oi, code)
			for i, old := range work.SortedKeys(hs) {
				n := "X-" + nm.draw(t, fmt.Sprintf("rh%d_%s_%d", oi, code, i), "response-header", ns, reToken.MatchString)
				nh[n] = hs[old]
			}
			r["headers"] = nh
		}
	}
}

// nastyEnums replaces the values of string enums by drawn names.
func nastyEnums(t *rapid.T, doc J, nm *namer) {
	seq := 0
	walk(doc, func(o J) {
		e, ok := o["enum"].(A)
		if !ok || o["type"] != "string" || len(e) == 0 {
			return
		}
		if _, isStr := e[0].(string); !isStr {
			return
		}
		seq++
		ns := fmt.Sprintf("enum%d", seq)
		ne := make(A, len(e))
		for i := range e {
			ne[i] = nm.draw(t, fmt.Sprintf("%s_v%d", ns, i), "enum-value", ns, nil)
		}
		o["enum"] = ne
		if _, has := o["default"]; has {
			o["default"] = ne[0]
		}
		if _, has := o["example"]; has {
			o["example"] = ne[len(ne)-1]
		}
	})
}

// goExtensions sprinkles the documented x-go-name / x-omitempty / x-order extensions over object properties
// and x-go-name over parameters.
func goExtensions(t *rapid.T, doc J, params, onObjects bool) {
	seq := 0
	walk(doc, func(o J) {
		props, ok := o["properties"].(J)
		if !ok {
			return
		}
		for _, k := range work.SortedKeys(props) {
			pj, _ := props[k].(J)
			if pj == nil {
				continue
			}
			seq++
			if _, isRef := pj["$ref"]; isRef {
				continue
			}
			switch rapid.IntRange(0, 14).Draw(t, fmt.Sprintf("xgo%d", seq)) {
			case 0:
				ty, _ := pj["type"].(string)
				if onObjects || ty == "string" || ty == "integer" || ty == "number" || ty == "boolean" {
					pj["x-go-name"] = fmt.Sprintf("CustomName%d", seq)
				}
			case 1:
				pj["x-omitempty"] = rapid.Bool().Draw(t, fmt.Sprintf("xgo%d_oe", seq))
			case 2:
				pj["x-order"] = rapid.IntRange(0, 5).Draw(t, fmt.Sprintf("xgo%d_ord", seq))
			case 3:
				pj["x-go-custom-tag"] = `mytag:"v"`
			}
		}
	})
	for oi, op := range specgen.Ops(doc) {
		ps, _ := op.Op["parameters"].(A)
		for i, p := range ps {
			pj, _ := p.(J)
			if params && pj != nil && chance(t, fmt.Sprintf("xgop%d_%d", oi, i), 6) {
				pj["x-go-name"] = fmt.Sprintf("CustomParam%d%d", oi, i)
			}
		}
	}
}

// ---------------------------------------------------------------------------

var goKeywords = setOf("break", "case", "chan", "const", "continue", "default", "defer", "else", "fallthrough", "for", "func", "go", "goto", "if", "import", "interface", "map", "package", "range", "return", "select", "struct", "switch", "type", "var")
var predeclared = setOf("bool", "byte", "complex64", "complex128", "error", "float32", "float64", "int", "int8", "int16", "int32", "int64", "rune", "string", "uint", "uint8", "uint16", "uint32", "uint64", "uintptr", "true", "false", "iota", "nil", "append", "cap", "close", "complex", "copy", "delete", "imag", "len", "make", "new", "panic", "print", "println", "real", "recover", "any", "comparable", "min", "max", "clear", "init", "main")
var reOSSuffix = regexp.MustCompile(`(?i)(^|_)(linux|windows|darwin|amd64|arm64|test|js|wasm|unix|android|ios)$`)

func setOf(xs ...string) map[string]bool {
	m := map[string]bool{}
	for _, x := range xs {
		m[x] = true
	}
	return m
}

// nameClass: what makes a name hard for a Go code generator.
func nameClass(s string) string {
	rs := []rune(s)
	lower := strings.ToLower(s)
	switch {
	case goKeywords[s]:
		return "go-keyword"
	case predeclared[s]:
		return "predeclared"
	case reOSSuffix.MatchString(s):
		return "build-constraint-suffix"
	case unicode.IsDigit(rs[0]):
		return "leading-digit"
	case !unicode.IsLetter(rs[0]):
		return "leading-symbol"
	}
	nonASCII, symbol, sep := false, false, false
	for _, r := range rs {
		switch {
		case r > 127:
			nonASCII = true
		case r == '_' || r == '-' || r == ' ' || r == '.':
			sep = true
		case !(unicode.IsLetter(r) || unicode.IsDigit(r)):
			symbol = true
		}
	}
	switch {
	case nonASCII:
		return "non-ascii"
	case symbol:
		return "symbol"
	case goKeywords[lower] || predeclared[lower]:
		return "capitalised-reserved"
	case sep:
		return "separators"
	case len(rs) == 1:
		return "single-letter"
	}
	return "word"
}

var reIdent = regexp.MustCompile(`[\p{L}_][\p{L}\p{N}_]*`)

// trigger attributes a compiler message to the spec name it mentions (kind:class).
func trigger(names []NameUse, msg string) string {
	best, bestLen := "", 0
	for _, id := range reIdent.FindAllString(msg, -1) {
		nid := work.Norm(id)
		for _, n := range names {
			nn := work.Norm(n.Name)
			if nn == "" {
				continue
			}
			score := 0
			if nn == nid {
				score = 1000 + len(nn)
			} else if len(nn) >= 3 && strings.Contains(nid, nn) {
				score = len(nn)
			}
			if score > bestLen {
				best, bestLen = n.Kind+":"+nameClass(n.Name), score
			}
		}
	}
	if best == "" || strings.HasSuffix(best, ":word") || strings.HasSuffix(best, ":separators") || strings.HasSuffix(best, ":single-letter") {
		return "shape"
	}
	return best
}

var reUndefSel = regexp.MustCompile(`([\p{L}\p{N}_]+) undefined \(type`)
var reUndef = regexp.MustCompile(`^undefined: ([\p{L}\p{N}_.]+)`)

// detail keeps the part of an "undefined" message that names the missing thing's role.
func detail(msg string) string {
	id := ""
	if m := reUndefSel.FindStringSubmatch(msg); m != nil {
		id = m[1]
	} else if m := reUndef.FindStringSubmatch(msg); m != nil {
		id = m[1]
	}
	switch {
	case id == "":
		return ""
	case id == "Validate" || id == "ContextValidate" || id == "MarshalBinary" || id == "UnmarshalBinary":
		return " [" + id + "]"
	case strings.HasPrefix(id, "validate") && strings.HasSuffix(id, "Enum"):
		return " [validate*Enum]"
	case strings.HasPrefix(id, "validate"):
		return " [validate*]"
	case strings.HasPrefix(id, "contextValidate"):
		return " [contextValidate*]"
	case strings.HasPrefix(id, "registerModel") || strings.HasPrefix(id, "retrieveModel"):
		return " [cli model flags]"
	case strings.HasPrefix(id, "Unmarshal"):
		return " [Unmarshal*]"
	case strings.Contains(id, "."):
		return " [qualified]"
	case id[0] >= 'A' && id[0] <= 'Z':
		return " [exported name]"
	}
	return " [local name]"
}

var reGoErr = regexp.MustCompile(`(?m)^([^\s:]+\.go):(\d+):(\d+): (.*)$`)

func firstErr(out string) (file, msg string) {
	m := reGoErr.FindStringSubmatch(out)
	if m == nil {
		return "", strings.TrimSpace(out)
	}
	return m[1], m[4]
}

var reQuoted = regexp.MustCompile("\"[^\"]*\"|`[^`]*`|'[^']*'")
var reNum = regexp.MustCompile(`\d+`)

// genErrClass abstracts a generator diagnostic.
func genErrClass(out string) string {
	lines := strings.Split(strings.TrimSpace(out), "\n")
	l := lines[len(lines)-1]
	if strings.Contains(out, "panic:") || strings.Contains(out, "goroutine ") {
		return "panic"
	}
	l = reQuoted.ReplaceAllString(l, "_")
	l = regexp.MustCompile(`/[^\s:]+`).ReplaceAllString(l, "/_")
	l = reNum.ReplaceAllString(l, "N")
	if len(l) > 100 {
		l = l[:100]
	}
	return l
}

func writeAuth(dir string) {
	d := filepath.Join(dir, "auth")
	_ = os.MkdirAll(d, 0o755)
	_ = os.WriteFile(filepath.Join(d, "auth.go"), []byte("package auth\n\n// Principal is a user-provided principal type.\ntype Principal struct{ Name string }\n\n// PrincipalIface is a user-provided principal interface.\ntype PrincipalIface interface{ GetName() string }\n"), 0o644)
}

func check(c Case) (o pbt.Outcome) {
	o = check1(c)
	if lf := os.Getenv("VERIF_C01_LOG"); lf != "" {
		sig := "ok"
		if o.Discard {
			sig = "discard"
		}
		if len(o.Violations) > 0 {
			sig = o.Violations[0].Sig
		}
		b, _ := json.Marshal(map[string]any{"features": c.Features, "target": c.Target, "flatten": c.Flatten, "opts": c.Opts, "sig": sig})
		if f, err := os.OpenFile(lf, os.O_APPEND|os.O_CREATE|os.O_WRONLY, 0o644); err == nil {
			_, _ = f.Write(append(b, '\n'))
			_ = f.Close()
		}
	}
	return
}

func check1(c Case) (o pbt.Outcome) {
	if err := swg.ValidateSpec(c.Spec); err != nil {
		o.Discard = true
		o.Class("discard:invalid-spec")
		return
	}
	classes := map[string]bool{}
	for _, n := range c.Names {
		classes[n.Kind+":"+nameClass(n.Name)] = true
	}
	for k := range classes {
		o.Class("name:" + k)
	}
	for k, n := range c.Excluded {
		for i := 0; i < n; i++ {
			o.Class("excluded-by-construction:" + k)
		}
	}
	for _, f := range c.Features {
		o.Class("feature:" + f)
	}
	opts := append([]string{}, c.Opts...)
	sort.Strings(opts)
	cfgKey := c.Target + "|" + c.Flatten + "|" + strings.Join(opts, " ")
	o.Class("target:"+c.Target, "flatten:"+c.Flatten)
	for _, op := range opts {
		o.Class("opt:" + strings.SplitN(op, "=", 2)[0])
	}
	dir := work.NewModule("c01:" + cfgKey + string(c.Spec))
	defer os.RemoveAll(filepath.Dir(dir))
	writeAuth(dir)
	specPath := filepath.Join(dir, "swagger.json")
	_ = os.WriteFile(specPath, c.Spec, 0o644)
	args := []string{"generate", c.Target, "-q", "-f", specPath, "-t", dir}
	if c.Target != "model" {
		args = append(args, "-A", "verif")
	}
	switch c.Flatten {
	case "full":
		args = append(args, "--with-flatten=full")
	case "expand":
		args = append(args, "--with-expand")
	}
	args = append(args, c.Opts...)
	gr := work.SwaggerGen(dir, args...)
	o.Evals = 1
	o.Sample = map[string]any{"features": c.Features, "target": c.Target, "flatten": c.Flatten, "opts": c.Opts, "names": sampleNames(c.Names, 8)}
	if gr.TimedOut {
		o.Discard = true
		o.Class("discard:generator-timeout")
		return
	}
	if !gr.OK() {
		cls := genErrClass(gr.Out)
		o.Fail("C01|generate-failed|"+c.Target+"|"+cls+"|"+trigger(c.Names, lastLine(gr.Out)), "`swagger %s` failed on a valid spec:\n%s", strings.Join(args[:2], " "), tailS(gr.Out, 1200))
		return
	}
	br := work.GoBuildAll(dir)
	if br.TimedOut {
		o.Discard = true
		o.Class("discard:build-timeout")
		return
	}
	if !br.OK() {
		file, msg := firstErr(br.Out)
		role := strings.SplitN(work.CompileErrClass(br.Out), "|", 2)
		pkg := pkgRole(dir, file)
		o.Fail("C01|does-not-build|"+c.Target+"|"+pkg+"|"+role[len(role)-1]+detail(msg)+"|"+trigger(c.Names, msg), "`swagger generate %s %s` exited 0 but the generated code does not compile:\n%s", c.Target, strings.Join(args[6:], " "), tailS(br.Out, 1500))
		return
	}
	o.NT(cfgKey + "|" + keyOf(classes))
	return
}

func keyOf(m map[string]bool) string {
	ks := work.SortedKeys(m)
	return strings.Join(ks, ",")
}

// pkgRole: which generated package family the failing file belongs to.
func pkgRole(dir, file string) string {
	rel := file
	if filepath.IsAbs(file) {
		rel, _ = filepath.Rel(dir, file)
	}
	parts := strings.Split(filepath.ToSlash(rel), "/")
	base := parts[len(parts)-1]
	top := parts[0]
	switch {
	case top == "models":
		return "models"
	case top == "cmd":
		return "main"
	case top == "cli":
		return "cli"
	case top == "restapi" && len(parts) == 2:
		return "restapi:" + roleOf(base)
	case top == "restapi":
		return "server-operations:" + roleOf(base)
	case top == "client" && len(parts) == 2:
		return "client-facade"
	case top == "client":
		return "client-operations:" + roleOf(base)
	}
	return top
}

func roleOf(base string) string {
	for _, sfx := range []string{"_parameters.go", "_responses.go", "_urlbuilder.go", "_client.go", "_api.go"} {
		if strings.HasSuffix(base, sfx) {
			return strings.TrimSuffix(sfx[1:], ".go")
		}
	}
	switch base {
	case "embedded_spec.go", "doc.go", "server.go":
		return strings.TrimSuffix(base, ".go")
	}
	if strings.HasPrefix(base, "configure_") {
		return "configure"
	}
	return "handler"
}

func sampleNames(ns []NameUse, n int) []string {
	var out []string
	for _, x := range ns {
		if nameClass(x.Name) != "word" && len(out) < n {
			out = append(out, x.Kind+"="+x.Name)
		}
	}
	return out
}

func lastLine(s string) string {
	l := strings.Split(strings.TrimSpace(s), "\n")
	return l[len(l)-1]
}

func tailS(s string, n int) string {
	if len(s) > n {
		return "…" + s[len(s)-n:]
	}
	return s
}

func TestProp(t *testing.T) {
	pbt.Main(t, pbt.Prop[Case]{
		ID:   "C01",
		Rule: "valid Swagger 2.0 documents drawn from the whole schema/parameter/response grammar (primitives with every format, arrays, maps, nested objects, allOf, tuples, untyped, polymorphism, aliases, x-nullable/x-go-name/x-omitempty/x-order, every parameter location and collectionFormat, shared parameters, response headers, default responses, security) whose definition, property, parameter, path-parameter, header, operation-id, tag, enum-value, response-header, security-scheme and discriminator names are drawn from a pool of hard names (Go keywords, predeclared identifiers, template locals, leading digits/symbols, punctuation, separators, non-ASCII letters, GOOS/GOARCH/_test suffixes), distinct after mangling inside each namespace; crossed with target {model, server, client, cli} x flatten {minimal, full, expand} x option switches. Oracle: `swagger generate <target>` (binary built from the tree) exits 0 and `go build ./...` of the scratch module succeeds. Non-trivial: the spec validated, generation succeeded and the tree was compiled; distinct by (target, flatten, options, set of name kind:class pairs present).",
		Assumptions: []string{
			"names are kept distinct after an approximation of Go-name mangling (lower-cased alphanumerics); collisions belong to C08",
			"header names are HTTP tokens, path parameter names contain none of / { } ? # %, property names contain no double quote (go-openapi cannot serialise them)",
		},
		Gen:   gen,
		Check: check,
	})
}
