package c03

import (
	"regexp"
	"bytes"
	"encoding/json"
	"mime/multipart"
	"fmt"
	"net/url"
	"sort"
	"strings"
	"testing"

	"pgregory.net/rapid"

	"verif/internal/pbt"
	"verif/internal/refmodel"
	"verif/internal/reqgen"
	"verif/internal/specgen"
	"verif/internal/swg"
	"verif/internal/work"
)

type J = specgen.J
type A = specgen.A

type Req struct {
	R     *refmodel.Request `json:"r"`
	Class string            `json:"class"`
}

type Case struct {
	Spec json.RawMessage `json:"spec"`
	Reqs []Req           `json:"reqs"`
}

func Cfg() *specgen.SpecCfg {
	return &specgen.SpecCfg{
		Schema:  specgen.Opts{MaxDepth: 2, AllOf: false, AddlProps: true, Defaults: false, Formats: []string{"date", "date-time", "uuid", "email", "byte", "password", "uri"}},
		Simple:  specgen.SimpleOpts{Defaults: true, MaxDepth: 2, Formats: []string{"date", "date-time", "uuid", "email", "byte", "password", "uri"}},
		MinDefs: 1, MaxDefs: 3, MinPaths: 2, MaxPaths: 3, MaxParams: 4, AcyclicRefs: true,
		SharedParams: true, FormData: true, Body: true, UniqueParamNames: true, AllowEmptyPct: 30, FocusParams: true,
		Methods: []string{"get", "put", "post", "delete", "patch"},
	}
}

var malformed = []string{"abc", "1.5", "4.0", "+3", "0x10", "1e3", " 7", "7 ", "TRUE", "banana", "yes", "1", "99999999999999999999", "3000000000", "-", "2020-13-45", "not-a-uuid", "1,2", "null", "NaN"}

func keyOf(p J) string { return str(p["in"]) + ":" + str(p["name"]) }
func str(v any) string { s, _ := v.(string); return s }

func setRaw(r *refmodel.Request, p J, raws []string) {
	name := str(p["name"])
	switch p["in"] {
	case "query":
		r.Query[name] = raws
	case "header":
		r.Header[name] = raws
	case "formData":
		r.Form[name] = raws
	case "path":
		if len(raws) > 0 {
			r.PathParams[name] = raws[0]
		}
	}
}

func dropRaw(r *refmodel.Request, p J) {
	name := str(p["name"])
	switch p["in"] {
	case "query":
		delete(r.Query, name)
	case "header":
		delete(r.Header, name)
	case "formData":
		delete(r.Form, name)
	}
}

func cloneReq(r *refmodel.Request) *refmodel.Request {
	b, _ := json.Marshal(r)
	var out refmodel.Request
	_ = json.Unmarshal(b, &out)
	if out.PathParams == nil {
		out.PathParams = map[string]string{}
	}
	if out.Query == nil {
		out.Query = map[string][]string{}
	}
	if out.Header == nil {
		out.Header = map[string][]string{}
	}
	if out.Form == nil {
		out.Form = map[string][]string{}
	}
	return &out
}

func gen(t *rapid.T) Case {
	doc := specgen.Spec(t, Cfg())
	// most specs declare the JSON media type globally (without it, operations relying
	// on the default consumer hit a listed known finding at every request)
	if rapid.IntRange(0, 9).Draw(t, "global_media") < 8 {
		doc["consumes"] = A{"application/json"}
		doc["produces"] = A{"application/json"}
	}
	c := Case{Spec: specgen.JSONBytes(doc)}
	ops := specgen.Ops(doc)
	per := pbt.LoadEnv("C03").N(70, 200)
	for oi, op := range ops {
		params := specgen.EffectiveParams(op)
		var simple []J
		var body J
		for _, p := range params {
			if p.P["in"] == "body" {
				body = p.P
			} else if p.P["type"] != "file" {
				simple = append(simple, p.P)
			}
		}
		count := 0
		emit := func(l string, class string, mod func(r *refmodel.Request) bool) {
			if count >= per {
				return
			}
			base, ok := reqgen.ValidRequest(t, l, doc, op.Path, op.Method, reqgen.Opts{OptionalPct: 70})
			if !ok {
				return
			}
			r := cloneReq(base)
			if mod != nil && !mod(r) {
				return
			}
			c.Reqs = append(c.Reqs, Req{R: r, Class: class})
			count++
		}
		// stratified: a few valid requests, then every single deviation of every parameter in turn
		for i := 0; i < 4; i++ {
			emit(fmt.Sprintf("o%d_v%d", oi, i), "valid", nil)
		}
		type dev struct {
			class string
			mod   func(r *refmodel.Request) bool
		}
		var devs []dev
		for pi, p := range simple {
			p := p
			pl := fmt.Sprintf("o%d_p%d", oi, pi)
			if p["in"] != "path" {
				devs = append(devs, dev{"drop-" + reqClass(p), func(r *refmodel.Request) bool { dropRaw(r, p); return true }})
				devs = append(devs, dev{"empty-" + reqClass(p), func(r *refmodel.Request) bool { setRaw(r, p, []string{""}); return true }})
				devs = append(devs, dev{"repeated-key", func(r *refmodel.Request) bool {
					v, ok := specgen.ValidSimple(t, pl+"_rv", schemaOf(p))
					if !ok {
						return false
					}
					raws, ok := refmodel.Encode(p, v)
					if !ok || len(raws) == 0 {
						return false
					}
					setRaw(r, p, append(append([]string{}, raws...), raws[0]))
					return true
				}})
			}
			for ti := 0; ti < 2; ti++ {
				txt := rapid.SampledFrom(malformed).Draw(t, fmt.Sprintf("%s_txt%d", pl, ti))
				devs = append(devs, dev{"text:" + str(p["type"]) + ":" + txt, func(r *refmodel.Request) bool { setRaw(r, p, []string{txt}); return true }})
			}
			if v, ok := specgen.ValidSimple(t, pl+"_mv", schemaOf(p)); ok {
				for _, m := range specgen.AllMutations(J{}, schemaOf(p), v) {
					m := m
					devs = append(devs, dev{"mutated:" + lastStep(m.Class), func(r *refmodel.Request) bool {
						raws, ok := refmodel.Encode(p, m.Doc)
						if !ok {
							if s, isStr := m.Doc.(string); isStr {
								raws = []string{s}
							} else {
								return false
							}
						}
						setRaw(r, p, raws)
						return true
					}})
				}
			}
			if p["in"] == "header" {
				devs = append(devs, dev{"header-other-case", func(r *refmodel.Request) bool {
					vals, ok := r.Header[str(p["name"])]
					if !ok {
						return false
					}
					delete(r.Header, str(p["name"]))
					r.Header[strings.ToUpper(str(p["name"]))] = vals
					return true
				}})
			}
		}
		if body != nil {
			bs, _ := body["schema"].(J)
			setBody := func(r *refmodel.Request, txt string) {
				r.HasBody, r.Body = true, txt
				if r.ContentType == "" {
					r.ContentType = "application/json"
				}
			}
			devs = append(devs,
				dev{"body-malformed", func(r *refmodel.Request) bool { setBody(r, "{\"a\":"); return true }},
				dev{"body-absent", func(r *refmodel.Request) bool { r.HasBody, r.Body = false, ""; return true }},
				dev{"body-null", func(r *refmodel.Request) bool { setBody(r, "null"); return true }},
				dev{"wrong-content-type", func(r *refmodel.Request) bool {
					if !r.HasBody {
						return false
					}
					r.ContentType = "application/x-unknown"
					return true
				}})
			if v, ok := specgen.Valid(t, fmt.Sprintf("o%d_bv", oi), doc, bs, 0); ok {
				for _, m := range specgen.AllMutations(doc, bs, v) {
					m := m
					devs = append(devs, dev{"body-mutated:" + lastStep(m.Class), func(r *refmodel.Request) bool {
						b, _ := json.Marshal(m.Doc)
						setBody(r, string(b))
						return true
					}})
				}
			}
		}
		if len(devs) > 0 {
			start := rapid.IntRange(0, len(devs)-1).Draw(t, fmt.Sprintf("o%d_start", oi))
			for k := 0; k < len(devs) && count < per; k++ {
				d := devs[(start+k)%len(devs)]
				emit(fmt.Sprintf("o%d_d%d", oi, k), d.class, d.mod)
			}
		}
	}
	return c
}

func lastStep(c string) string {
	if i := strings.LastIndex(c, ">"); i >= 0 {
		c = c[i+1:]
	}
	// strip values after the second colon (format names etc. stay)
	return c
}

func reqClass(p J) string {
	c := "optional"
	if b, _ := p["required"].(bool); b {
		c = "required"
	}
	if b, _ := p["allowEmptyValue"].(bool); b {
		c += "+allowEmpty"
	}
	if p["default"] != nil {
		c += "+default"
	}
	return c + ":" + str(p["in"])
}

func schemaOf(p J) J {
	out := J{}
	for k, v := range p {
		switch k {
		case "name", "in", "required", "description", "default", "allowEmptyValue", "example":
			continue
		}
		out[k] = v
	}
	return out
}

// toHarness renders the abstract request for the generated server.
func toHarness(r *refmodel.Request, basePath string) work.SrvReq {
	u := r.Path(basePath)
	if len(r.Query) > 0 {
		u += "?" + url.Values(r.Query).Encode()
	}
	h := map[string][]string{}
	for k, v := range r.Header {
		h[k] = v
	}
	body := ""
	ct := r.ContentType
	switch {
	case r.HasBody:
		body = r.Body
	case len(r.Form) > 0 || strings.HasPrefix(ct, "application/x-www-form-urlencoded"):
		body = url.Values(r.Form).Encode()
		if ct == "" {
			ct = "application/x-www-form-urlencoded"
		}
	}
	if strings.HasPrefix(ct, "multipart/form-data") && !r.HasBody {
		var buf bytes.Buffer
		mw := multipart.NewWriter(&buf)
		keys := make([]string, 0, len(r.Form))
		for k := range r.Form {
			keys = append(keys, k)
		}
		sort.Strings(keys)
		for _, k := range keys {
			for _, v := range r.Form[k] {
				_ = mw.WriteField(k, v)
			}
		}
		_ = mw.Close()
		body = buf.String()
		ct = mw.FormDataContentType()
	}
	if ct != "" {
		h["Content-Type"] = []string{ct}
	}
	return work.SrvReq{Op: "request", Method: r.Method, URL: u, Headers: h, Body: body, Plan: &work.Plan{Status: 200}}
}

// subsetEqual: every non-zero leaf of want is present and equal in got
// (generated models may add zero members and drop zero optional ones: C05).
func subsetEqual(want, got any) bool {
	switch w := want.(type) {
	case map[string]any:
		g, ok := got.(map[string]any)
		if !ok {
			return len(w) == 0 && got == nil
		}
		for k, wv := range w {
			gv, present := g[k]
			if !present {
				if isZero(wv) {
					continue
				}
				return false
			}
			if !subsetEqual(wv, gv) {
				return false
			}
		}
		return true
	case []any:
		g, ok := got.([]any)
		if !ok {
			return len(w) == 0 && got == nil
		}
		if len(w) != len(g) {
			return false
		}
		for i := range w {
			if !subsetEqual(w[i], g[i]) {
				return false
			}
		}
		return true
	}
	return refmodel.ValueEqual("", want, got) || (isZero(want) && got == nil)
}

func isZero(v any) bool {
	switch x := v.(type) {
	case nil:
		return true
	case string:
		// zero values of struct-backed formats
		return x == "" || strings.HasPrefix(x, "0001-01-01") || (len(x) >= 20 && strings.Trim(x, "0") == "") || x == "00000000-0000-0000-0000-000000000000"
	case float64:
		return x == 0
	case bool:
		return !x
	case []any:
		return len(x) == 0
	case map[string]any:
		for _, e := range x {
			if !isZero(e) {
				return false
			}
		}
		return true
	}
	return false
}

func check(c Case) (o pbt.Outcome) {
	o = checkInner(c)
	// region: an operation whose body is `type: string, format: byte` - the generated
	// binder never hands that body over (listed known finding); every deviation seen on
	// such a body is the same defect
	for i, v := range o.Violations {
		if strings.Contains(v.Msg, "no consumer registered for") {
			// region: no consumer is generated for the default media type when the spec only
			// declares other media types (listed known finding): every request with a body
			// to such an operation is answered 500
			o.Violations[i].Sig = "C03|region:no-consumer-for-default-media-type"
			continue
		}
		if strings.Contains(v.Msg, `"schema":{"format":"byte","type":"string"}`) && (strings.Contains(v.Sig, "|body") || strings.Contains(v.Msg, "validation body")) {
			o.Violations[i].Sig = "C03|wrong-value|body||string:byte"
		}
	}
	return
}

func checkInner(c Case) (o pbt.Outcome) {
	if err := swg.ValidateSpec(c.Spec); err != nil {
		o.Discard = true
		o.Class("discard:invalid-spec")
		return
	}
	prog := work.BuildServer(c.Spec, false)
	if !prog.Usable() {
		o.Class("unusable-program:" + prog.Stage)
		o.Discard = true
		return
	}
	doc, _ := specgen.Parse(c.Spec)
	// generated models ignore unknown properties (documented, non-strict mode): the
	// reference reads body schemas without `additionalProperties: false`
	eraseAPFalse(doc)
	relaxed := specgen.CloneJ(doc)
	relaxUnvalidatedObjects(relaxed)
	lib, err := refmodel.NewLib(specgen.JSONBytes(doc))
	if err != nil {
		o.Discard = true
		return
	}
	basePath, _ := doc["basePath"].(string)
	var reqs []work.SrvReq
	for _, rq := range c.Reqs {
		reqs = append(reqs, toHarness(rq.R, basePath))
	}
	resps, err := prog.Exec(reqs)
	if err != nil {
		o.Fail("C03|harness-crash", "the program built from the generated server died: %v", err)
		return
	}
	o.Evals = len(reqs)
	o.Sample = map[string]any{"operations": len(specgen.Ops(doc)), "requests": len(c.Reqs), "first": c.Reqs[0]}
	for i, rq := range c.Reqs {
		r := resps[i]
		if r.Panic != "" {
			o.Fail("C03|panic", "generated server panicked on %s: %s", pretty(rq.R), r.Panic)
			continue
		}
		ref := refmodel.Bind(doc, rq.R)
		reached := r.Observed != nil && r.Observed.Reached != ""
		o.Class("ref:" + ref.Verdict.String())
		opInfo := refmodel.FindOp(doc, rq.R.Template, rq.R.Method)
		if ref.Verdict == refmodel.Unspecified || opInfo == nil {
			continue
		}
		if rq.R.HasBody {
			var bv any
			if json.Unmarshal([]byte(rq.R.Body), &bv) == nil && bv != nil && refmodel.ContainsNull(bv) {
				o.Class("unspecified:body-with-explicit-null")
				continue
			}
			// property-less objects may or may not be validated (documented): both readings must agree
			if alt := refmodel.Bind(relaxed, rq.R); alt.Verdict != ref.Verdict {
				o.Class("unspecified:body-with-unvalidated-object-position")
				continue
			}
		}
		if ref.Verdict == refmodel.Reject && strings.Contains(ref.Reason, "validation body") && bodyHasTolerableZero(doc, opInfo, rq.R) {
			// documented tolerance: explicit zero values of optional properties may be taken for absent
			o.Class("unspecified:body-with-zero-valued-optional-property")
			continue
		}
		// second oracle on the typed values the reference binder parsed
		if !ref.ParseLevel {
			probe := *rq.R
			probe.Typed = ref.Parsed
			ok, _ := lib.Accepts(&probe)
			if ok != (ref.Verdict == refmodel.Accept) {
				o.Class("oracle-disagreement")
				continue
			}
		}
		cls := strings.Split(rq.Class, ":")
		ck := cls[0]
		if len(cls) > 1 {
			ck += ":" + cls[1]
		}
		if len(cls) > 3 && cls[1] == "format" {
			ck = strings.Join(cls[:4], ":")
		}
		o.Class("request:" + ck)
		o.NT(opShape(opInfo) + "|" + rq.Class + "|" + ref.Verdict.String())
		switch ref.Verdict {
		case refmodel.Accept:
			if !reached {
				// the server names the place it objects to; the kind of (still valid) request that met it is not part of the cause
				where := "in:unknown"
				if m := regexp.MustCompile(` in (body|query|header|path|formData)\b`).FindStringSubmatch(r.RespBody); m != nil {
					where = "in:" + m[1]
				}
				o.Fail("C03|rejects-valid|"+rejectClass(r.RespBody)+"|"+where, "request satisfying the spec is answered %d and the handler is not run\n  request: %s\n  response: %s\n  params: %s", r.Status, pretty(rq.R), r.RespBody, paramsOf(opInfo))
				continue
			}
			// values handed to the handler
			for _, p := range opInfo.Params {
				key := str(p["in"]) + ":" + str(p["name"])
				want := ref.Values[key]
				got, present := r.Observed.Params[work.Norm(str(p["name"]))]
				if !present {
					if e, bad := r.Observed.ParamErrs[work.Norm(str(p["name"]))]; bad {
						o.Fail("C03|param-unreadable", "parameter %s could not be read from the Params struct: %s", key, e)
					}
					continue
				}
				var gv any
				_ = json.Unmarshal(got, &gv)
				if p["type"] == "file" {
					continue
				}
				fmtName := str(p["format"])
				okv := false
				switch {
				case want == nil:
					okv = isZero(gv)
				case p["in"] == "body":
					if bs, ok := p["schema"].(J); ok {
						// undeclared properties are dropped by generated models (documented)
						want = refmodel.StripUndeclared(doc, bs, want, 0)
					}
					okv = subsetEqual(want, gv)
				default:
					okv = valueEq(p, want, gv)
				}
				if p["in"] == "body" {
					if bs, ok := p["schema"].(J); ok {
						rs := refmodel.Resolve(doc, bs)
						fmtName = typeClass(rs) + ":" + str(rs["format"])
					}
				}
				if !okv {
					o.Fail(fmt.Sprintf("C03|wrong-value|%s|%s|%s", str(p["in"]), typeClass(p), fmtName), "handler received %s = %s, the request carries %s\n  request: %s\n  parameter: %s", key, got, short(want), pretty(rq.R), specgen.JSONBytes(p))
				}
			}
		case refmodel.Reject:
			if reached {
				if reasonClass(ref.Reason) == "validation:format" && (strings.HasSuffix(ck, ":zero") || strings.Contains(ck, "add-zero-")) {
					ck = strings.SplitN(ck, ":", 2)[0] + ":empty-string-for-formatted-type"
				}
				o.Fail("C03|accepts-invalid|"+reasonClass(ref.Reason)+"|"+ck, "request violating the spec (%s) reaches the handler\n  request: %s\n  handler saw: %s\n  params: %s", ref.Reason, pretty(rq.R), paramsJSON(r.Observed.Params), paramsOf(opInfo))
			} else if r.Status < 400 || r.Status > 499 {
				o.Fail(fmt.Sprintf("C03|wrong-status|%d|%s", r.Status, reasonClass(ref.Reason)), "request violating the spec (%s) is answered %d, not 4xx\n  request: %s\n  response: %s", ref.Reason, r.Status, pretty(rq.R), r.RespBody)
			}
		}
	}
	return
}

// valueEq compares the recorded value of a simple parameter with the reference value.
func relaxUnvalidatedObjects(v any) {
	switch x := v.(type) {
	case map[string]any:
		if x["type"] == "object" && x["properties"] == nil && x["allOf"] == nil && x["$ref"] == nil {
			if _, isSchema := x["additionalProperties"].(map[string]any); !isSchema {
				delete(x, "type")
				delete(x, "minProperties")
				delete(x, "maxProperties")
				delete(x, "additionalProperties")
			}
		}
		for _, e := range x {
			relaxUnvalidatedObjects(e)
		}
	case []any:
		for _, e := range x {
			relaxUnvalidatedObjects(e)
		}
	}
}

func eraseAPFalse(v any) {
	switch x := v.(type) {
	case map[string]any:
		if b, ok := x["additionalProperties"].(bool); ok && !b {
			delete(x, "additionalProperties")
		}
		for _, e := range x {
			eraseAPFalse(e)
		}
	case []any:
		for _, e := range x {
			eraseAPFalse(e)
		}
	}
}

func bodyHasTolerableZero(doc J, op *refmodel.OpInfo, r *refmodel.Request) bool {
	for _, p := range op.Params {
		if p["in"] != "body" {
			continue
		}
		s, _ := p["schema"].(J)
		var v any
		if s == nil || json.Unmarshal([]byte(r.Body), &v) != nil {
			return false
		}
		var q [][]string
		refmodel.ZeroPositions(doc, s, v, nil, &q, 0)
		return len(q) > 0
	}
	return false
}

func valueEq(p J, want, got any) bool {
	if arr, ok := want.([]any); ok {
		g, ok := got.([]any)
		if !ok || len(arr) != len(g) {
			return len(arr) == 0 && got == nil
		}
		items, _ := p["items"].(J)
		if items == nil {
			items = J{}
		}
		for i := range arr {
			if !valueEq(items, arr[i], g[i]) {
				return false
			}
		}
		return true
	}
	return refmodel.ValueEqual(str(p["format"]), want, got)
}

func typeClass(p J) string {
	t := str(p["type"])
	if t == "array" {
		if it, ok := p["items"].(J); ok {
			return "array-of-" + typeClass(it)
		}
	}
	return t
}

func opShape(op *refmodel.OpInfo) string {
	var parts []string
	for _, p := range op.Params {
		parts = append(parts, str(p["in"])+"/"+typeClass(p))
	}
	sort.Strings(parts)
	return op.Method + ":" + strings.Join(parts, ",")
}

func reasonClass(reason string) string {
	r := reason
	if strings.HasPrefix(r, "validation ") {
		if i := strings.LastIndex(r, ": "); i >= 0 {
			return "validation:" + r[i+2:]
		}
	}
	if i := strings.Index(r, ": "); i >= 0 {
		r = r[i+2:]
	}
	switch {
	case strings.HasPrefix(r, "validation "):
		if i := strings.LastIndex(r, ": "); i >= 0 {
			return "validation:" + r[i+2:]
		}
		return "validation"
	case strings.HasPrefix(r, "not a boolean"):
		return "not-a-boolean"
	case strings.HasPrefix(r, "not an integer"), strings.HasPrefix(r, "not a number"), strings.HasPrefix(r, "out of range"):
		return "unparsable-number"
	case strings.Contains(r, "required parameter absent"):
		return "required-absent"
	case strings.Contains(r, "present but empty"):
		return "required-empty"
	case strings.Contains(r, "required body absent"):
		return "required-body-absent"
	case strings.Contains(r, "malformed JSON"):
		return "malformed-body"
	case strings.Contains(r, "not consumed"):
		return "content-type"
	}
	return "other"
}

func rejectClass(body string) string {
	var e struct {
		Code    int    `json:"code"`
		Message string `json:"message"`
	}
	_ = json.Unmarshal([]byte(body), &e)
	m := e.Message
	for _, kw := range []string{"is required", "must be of type", "should be one of", "should be at least", "should be at most", "should be greater than", "should be less than", "should match", "should be a multiple", "shouldn't contain duplicates", "should have at least", "should have at most", "unsupported media type", "in body is a forbidden"} {
		if strings.Contains(m, kw) {
			return fmt.Sprintf("%d:%s", e.Code, strings.ReplaceAll(kw, " ", "-"))
		}
	}
	if strings.Contains(m, "no consumer registered") {
		return fmt.Sprintf("%d:no-consumer-registered", e.Code)
	}
	return fmt.Sprintf("%d:other", e.Code)
}

func paramsOf(op *refmodel.OpInfo) string {
	return string(specgen.JSONBytes(op.Params))
}

func paramsJSON(m map[string]json.RawMessage) string {
	b, _ := json.Marshal(m)
	return string(b)
}

func pretty(r *refmodel.Request) string {
	b, _ := json.Marshal(r)
	return string(b)
}

func short(v any) string {
	b, _ := json.Marshal(v)
	if len(b) > 200 {
		return string(b[:200]) + "…"
	}
	return string(b)
}

func TestProp(t *testing.T) {
	pbt.Main(t, pbt.Prop[Case]{
		ID:   "C03",
		Rule: "server programs: specs of 2-3 paths with operations carrying path, query, header, formData and body parameters (scalars of every type, string formats, arrays and nested arrays in every collectionFormat, required / optional / allowEmptyValue / default, every validation keyword at every items depth, path-level shared parameters, body schemas referencing definitions) generated with `swagger generate server` and compiled with a reflection harness; per operation 40 (quick) / 120 (thorough) requests: valid ones and single deviations (parameter dropped, emptied, value mutated at a constraint boundary, malformed text, repeated key, header in another case, body mutated / malformed / absent / null, wrong content type). Oracle: three-valued reference binder written from the Swagger 2.0 parameter semantics; handler reached <=> must-accept, 4xx and handler not run on must-reject, every Params field equal to the carried value / default. Non-trivial: request with a definite verdict on which go-openapi/validate agrees with the reference binder; distinct by (operation parameter signature, request class, verdict).",
		Assumptions: []string{
			"unspecified by Swagger 2.0 and asserting nothing: optional parameter present but empty, numeric text forms such as 4.0 / +3 / 1e3 / hex, repeated keys of non-multi parameters, array items that are empty / padded / contain the separator, null bodies, allowEmptyValue on typed or constrained parameters, file parameters",
			"body values are compared as a subset (generated models may add zero members: C05); date-time and duration by denoted value",
			
		},
		Gen:   gen,
		Check: check,
	})
}
