package c11

import (
	"encoding/json"
	"fmt"
	"os"
	"path/filepath"
	"regexp"
	"sort"
	"strings"
	"testing"

	"pgregory.net/rapid"

	"verif/internal/pbt"
	"verif/internal/specgen"
	"verif/internal/swg"
	"verif/internal/work"
)

type J = specgen.J
type A = specgen.A

// Step is one event of a history over one target directory.
type Step struct {
	Kind string `json:"kind"` // generate | edit-configure | add-user-file | edit-user-file | evolve
	// generate
	Target string   `json:"target,omitempty"` // server | client | model | support | operation
	Opts   []string `json:"opts,omitempty"`
	// user files
	Path    string `json:"path,omitempty"`
	Content string `json:"content,omitempty"`
	// evolve: the document after the change, and what changed
	Spec   json.RawMessage `json:"spec,omitempty"`
	Change string          `json:"change,omitempty"`
}

type Case struct {
	Spec  json.RawMessage `json:"spec"`
	Steps []Step          `json:"steps"`
}

const appName = "verif"
const configureFile = "restapi/configure_verif.go"

func chance(t *rapid.T, label string, pct int) bool {
	return specgen.Uniform(t, label, 100) < pct
}

func genSpec(t *rapid.T) J {
	formats := []string{"date", "date-time", "uuid"}
	cfg := &specgen.SpecCfg{
		Schema:  specgen.Opts{MaxDepth: 1, Formats: formats, Descr: true},
		Simple:  specgen.SimpleOpts{Defaults: true, MaxDepth: 1, Formats: formats},
		MinDefs: 2, MaxDefs: 4, MinPaths: 2, MaxPaths: 4, MaxParams: 2, AcyclicRefs: true,
		Body: true, UniqueParamNames: true, Tags: true, DefaultResponse: true,
		Methods: []string{"get", "put", "post", "delete"},
	}
	doc := specgen.Spec(t, cfg)
	doc["consumes"] = A{"application/json"}
	doc["produces"] = A{"application/json"}
	return doc
}

// evolve applies one small change to doc (in place) and names it.
func evolve(t *rapid.T, label string, doc J, seq int) string {
	ops := specgen.Ops(doc)
	defs, _ := doc["definitions"].(J)
	paths := doc["paths"].(J)
	kind := specgen.Pick(t, label+"_kind", []string{"drop-operation", "drop-operation", "add-operation", "drop-property", "drop-property", "add-property", "change-text", "drop-parameter", "drop-response", "add-definition"})
	switch kind {
	case "drop-operation":
		if len(ops) < 2 {
			break
		}
		op := ops[specgen.Uniform(t, label+"_op", len(ops))]
		delete(op.Item, op.Method)
		left := 0
		for k := range op.Item {
			if k != "parameters" && !strings.HasPrefix(k, "x-") {
				left++
			}
		}
		if left == 0 {
			delete(paths, op.Path)
		}
		return kind
	case "add-operation":
		paths[fmt.Sprintf("/extra%d", seq)] = J{"get": J{"operationId": fmt.Sprintf("getExtra%d", seq), "responses": J{"200": J{"description": "ok"}}}}
		return kind
	case "drop-property", "add-property":
		var cands []string
		for _, n := range work.SortedKeys(defs) {
			if d, ok := defs[n].(J); ok {
				if p, ok := d["properties"].(J); ok && len(p) > 0 {
					cands = append(cands, n)
				}
			}
		}
		if len(cands) == 0 {
			break
		}
		d := defs[cands[specgen.Uniform(t, label+"_def", len(cands))]].(J)
		props := d["properties"].(J)
		if kind == "add-property" {
			props[fmt.Sprintf("added%d", seq)] = J{"type": "string", "description": "added later"}
			return kind
		}
		names := work.SortedKeys(props)
		victim := names[specgen.Uniform(t, label+"_prop", len(names))]
		delete(props, victim)
		if req, ok := d["required"].(A); ok {
			var keep A
			for _, r := range req {
				if r != victim {
					keep = append(keep, r)
				}
			}
			if len(keep) == 0 {
				delete(d, "required")
			} else {
				d["required"] = keep
			}
		}
		return kind
	case "change-text":
		doc["info"].(J)["description"] = fmt.Sprintf("revision %d", seq)
		if len(ops) > 0 {
			ops[specgen.Uniform(t, label+"_op", len(ops))].Op["description"] = fmt.Sprintf("changed in revision %d", seq)
		}
		return kind
	case "drop-parameter":
		for _, op := range ops {
			ps, _ := op.Op["parameters"].(A)
			for i, p := range ps {
				if pj, ok := p.(J); ok && pj["in"] != "path" {
					op.Op["parameters"] = append(append(A{}, ps[:i]...), ps[i+1:]...)
					if len(op.Op["parameters"].(A)) == 0 {
						delete(op.Op, "parameters")
					}
					return kind
				}
			}
		}
	case "drop-response":
		for _, op := range ops {
			rs, _ := op.Op["responses"].(J)
			if len(rs) > 1 {
				codes := work.SortedKeys(rs)
				delete(rs, codes[len(codes)-1])
				return kind
			}
		}
	case "add-definition":
		if defs != nil {
			defs[fmt.Sprintf("Added%d", seq)] = J{"type": "object", "properties": J{"id": J{"type": "string"}}}
			return kind
		}
	}
	doc["info"].(J)["description"] = fmt.Sprintf("revision %d", seq)
	return "change-text"
}

var userPaths = []string{"restapi/zz_user_handlers.go", "models/zz_user_model.go", "restapi/operations/zz_user_ops.go", "client/zz_user_client.go", "cmd/verif-server/zz_user_main.go", "zz_user_notes.txt", "restapi/zz_user_data.json", "docs/zz_user_readme.md"}

func userContent(path string, rev int) string {
	if strings.HasSuffix(path, ".go") {
		pkg := filepath.Base(filepath.Dir(path))
		if pkg == "verif-server" {
			pkg = "main"
		}
		return fmt.Sprintf("package %s\n\n// user code, revision %d\nvar zzUserRevision%d = %d\n", strings.ReplaceAll(pkg, "-", "_"), rev, rev, rev)
	}
	return fmt.Sprintf("user data, revision %d\n", rev)
}

func gen(t *rapid.T) Case {
	doc := genSpec(t)
	c := Case{Spec: specgen.JSONBytes(doc)}
	n := rapid.IntRange(3, 8).Draw(t, "nsteps")
	// one history in four is an "autowired" project: every server generation names an implementation package, so that
	// restapi/auto_configure_<app>.go (generator-owned, unlike configure_<app>.go) is regenerated across spec revisions
	implPkgHistory = chance(t, "implpkg", 25)
	// every history starts with a generation
	first := genStep(t, "s0", doc)
	c.Steps = append(c.Steps, first)
	added := map[string]bool{}
	for i := 1; i < n; i++ {
		l := fmt.Sprintf("s%d", i)
		switch specgen.Pick(t, l+"_kind", []string{"generate", "generate", "generate", "evolve", "evolve", "edit-configure", "add-user-file", "edit-user-file"}) {
		case "generate":
			c.Steps = append(c.Steps, genStep(t, l, doc))
		case "evolve":
			ch := evolve(t, l, doc, i)
			c.Steps = append(c.Steps, Step{Kind: "evolve", Spec: specgen.JSONBytes(doc), Change: ch})
			// an evolution is followed by a regeneration
			c.Steps = append(c.Steps, genStep(t, l+"_regen", doc))
		case "edit-configure":
			c.Steps = append(c.Steps, Step{Kind: "edit-configure", Content: fmt.Sprintf("\n// user edit %d\n", i)})
		case "add-user-file", "edit-user-file":
			p := specgen.Pick(t, l+"_path", userPaths)
			kind := "add-user-file"
			if added[p] {
				kind = "edit-user-file"
			}
			added[p] = true
			c.Steps = append(c.Steps, Step{Kind: kind, Path: p, Content: userContent(p, i)})
		}
	}
	// histories end with a generation so that the last events are observed
	if c.Steps[len(c.Steps)-1].Kind != "generate" {
		c.Steps = append(c.Steps, genStep(t, "last", doc))
	}
	return c
}

// implPkgHistory is set by gen for the history being drawn (a function of the drawn values only).
var implPkgHistory bool

func genStep(t *rapid.T, l string, doc J) Step {
	target := specgen.Pick(t, l+"_target", []string{"server", "server", "server", "client", "model", "support", "operation"})
	s := Step{Kind: "generate", Target: target}
	pool := map[string][]string{
		"server":    {"--skip-tag-packages", "--regenerate-configureapi", "--exclude-main", "--exclude-spec", "--skip-models", "--skip-operations", "--skip-support", "--strict-responders", "--with-flatten=full"},
		"client":    {"--skip-tag-packages", "--skip-models", "--skip-operations", "--with-flatten=full"},
		"model":     {"--struct-tags=yaml", "--with-flatten=full"},
		"support":   {"--skip-tag-packages", "--strict-responders", "--with-flatten=full", "--default-scheme=https"},
		"operation": {"--skip-tag-packages", "--strict-responders", "--skip-handler", "--skip-parameters", "--skip-responses", "--skip-url-builder"},
	}[target]
	for i, o := range pool {
		if chance(t, fmt.Sprintf("%s_opt%d", l, i), 18) {
			s.Opts = append(s.Opts, o)
		}
	}
	if target == "server" && implPkgHistory {
		s.Opts = append(s.Opts, "--implementation-package=example.com/verifimpl")
	}
	if target == "operation" {
		ops := specgen.Ops(doc)
		var ids []string
		for _, op := range ops {
			if id, ok := op.Op["operationId"].(string); ok {
				ids = append(ids, id)
			}
		}
		if len(ids) == 0 {
			s.Target = "server"
			s.Opts = nil
			return s
		}
		s.Opts = append(s.Opts, "--name="+ids[specgen.Uniform(t, l+"_opname", len(ids))])
	}
	return s
}

// ---------------------------------------------------------------------------

func readTree(dir string) map[string]string {
	out := map[string]string{}
	_ = filepath.Walk(dir, func(p string, info os.FileInfo, err error) error {
		if err != nil || info.IsDir() {
			return nil
		}
		rel, _ := filepath.Rel(dir, p)
		rel = filepath.ToSlash(rel)
		if rel == "go.mod" || rel == "go.sum" || rel == "swagger.json" {
			return nil
		}
		b, err := os.ReadFile(p)
		if err == nil {
			out[rel] = string(b)
		}
		return nil
	})
	return out
}

func runGenerate(dir string, spec []byte, s Step) work.Result {
	specPath := filepath.Join(dir, "swagger.json")
	_ = os.WriteFile(specPath, spec, 0o644)
	args := []string{"generate", s.Target, "-q", "-f", specPath, "-t", dir}
	if s.Target != "model" && s.Target != "operation" {
		args = append(args, "-A", appName)
	}
	args = append(args, s.Opts...)
	return work.SwaggerGen(dir, args...)
}

func fileRole(rel string) string {
	parts := strings.Split(rel, "/")
	base := parts[len(parts)-1]
	for _, sfx := range []string{"_parameters.go", "_responses.go", "_urlbuilder.go", "_client.go", "_api.go"} {
		if strings.HasSuffix(base, sfx) {
			return parts[0] + ":" + strings.TrimSuffix(sfx[1:], ".go")
		}
	}
	switch {
	case base == "embedded_spec.go" || base == "doc.go" || base == "server.go" || base == "main.go":
		return parts[0] + ":" + strings.TrimSuffix(base, ".go")
	case strings.HasPrefix(base, "configure_"):
		return "restapi:configure"
	case parts[0] == "models":
		return "models:definition"
	case parts[0] == "restapi":
		return "restapi:handler"
	case parts[0] == "client":
		return "client:facade"
	}
	return parts[0] + ":other"
}

func hasOpt(s Step, o string) bool {
	for _, x := range s.Opts {
		if x == o {
			return true
		}
	}
	return false
}

func check(c Case) (o pbt.Outcome) {
	if err := swg.ValidateSpec(c.Spec); err != nil {
		o.Discard = true
		o.Class("discard:invalid-spec")
		return
	}
	dir := work.NewModule("c11:" + string(c.Spec) + fmt.Sprint(len(c.Steps)))
	defer os.RemoveAll(filepath.Dir(dir))
	spec := []byte(c.Spec)
	user := map[string]string{} // files the user owns -> expected content
	configureOwned := false    // the configure file exists (generated once or edited)
	var hist []string
	gens := 0
	for i, s := range c.Steps {
		switch s.Kind {
		case "evolve":
			if err := swg.ValidateSpec(s.Spec); err != nil {
				o.Discard = true
				o.Class("discard:invalid-evolved-spec")
				return
			}
			spec = []byte(s.Spec)
			hist = append(hist, "evolve:"+s.Change)
			o.Class("evolve:" + s.Change)
		case "edit-configure":
			p := filepath.Join(dir, configureFile)
			b, err := os.ReadFile(p)
			if err != nil {
				continue // nothing to edit yet
			}
			_ = os.WriteFile(p, append(b, []byte(s.Content)...), 0o644)
			hist = append(hist, "edit-configure")
			o.Class("user:edit-configure")
		case "add-user-file", "edit-user-file":
			p := filepath.Join(dir, filepath.FromSlash(s.Path))
			_ = os.MkdirAll(filepath.Dir(p), 0o755)
			_ = os.WriteFile(p, []byte(s.Content), 0o644)
			user[s.Path] = s.Content
			hist = append(hist, s.Kind)
			o.Class("user:" + s.Kind)
		case "generate":
			before := readTree(dir)
			if _, ok := before[configureFile]; ok {
				configureOwned = true
			}
			r := runGenerate(dir, spec, s)
			o.Evals++
			opts := append([]string{}, s.Opts...)
			for k, v := range opts {
				if strings.HasPrefix(v, "--name=") {
					opts[k] = "--name"
				}
			}
			sort.Strings(opts)
			step := "generate:" + s.Target + "[" + strings.Join(opts, " ") + "]"
			o.Class("generate:" + s.Target)
			if !r.OK() {
				// a refused run must still leave user files alone
				o.Class("generate-failed:" + s.Target)
				after := readTree(dir)
				for p, want := range user {
					if after[p] != want {
						o.Fail("C11|user-file-changed-by-failed-run|"+fileRole(p), "step %d (%s) failed and changed the user file %s", i, step, p)
					}
				}
				if gens == 0 {
					o.Discard = true
					return
				}
				hist = append(hist, step+":failed")
				continue
			}
			gens++
			after := readTree(dir)
			// (i) user files
			for p, want := range user {
				got, ok := after[p]
				if !ok {
					o.Fail("C11|user-file-removed|"+fileRole(p)+"|"+s.Target, "step %d (%s) removed the user file %s\nhistory: %v", i, step, p, hist)
				} else if got != want {
					o.Fail("C11|user-file-modified|"+fileRole(p)+"|"+s.Target, "step %d (%s) modified the user file %s\nhistory: %v", i, step, p, hist)
				}
			}
			// (ii) configure file
			regen := hasOpt(s, "--regenerate-configureapi")
			if configureOwned && !regen {
				if after[configureFile] != before[configureFile] {
					o.Fail("C11|configure-rewritten|"+s.Target, "step %d (%s) rewrote %s although it existed and --regenerate-configureapi was not given\nhistory: %v", i, step, configureFile, hist)
				}
			}
			// (iii) convergence with a fresh generation
			fresh := work.NewModule(fmt.Sprintf("c11-fresh:%d:%s", i, spec))
			fr := runGenerate(fresh, spec, s)
			if !fr.OK() {
				o.Fail("C11|fresh-generation-fails|"+s.Target, "step %d (%s) succeeded in the populated directory but the same command fails in an empty one:\n%s", i, step, tail(fr.Out, 600))
				_ = os.RemoveAll(filepath.Dir(fresh))
				continue
			}
			ft := readTree(fresh)
			_ = os.RemoveAll(filepath.Dir(fresh))
			var extraFresh []map[string]string
			shrunk, grown, changed := 0, 0, 0
			for p, want := range ft {
				if p == configureFile && configureOwned && !regen {
					continue
				}
				if _, isUser := user[p]; isUser {
					continue
				}
				got, ok := after[p]
				prev, existed := before[p]
				if existed {
					switch {
					case len(want) < len(prev):
						shrunk++
					case len(want) > len(prev):
						grown++
					case want != prev:
						changed++
					}
				}
				if ok && got != want {
					// the generator's output for one input is not always the same (C07's subject): a difference only
					// counts when no fresh generation out of four produces the bytes found in the target
					for len(extraFresh) < 3 {
						ef := work.NewModule(fmt.Sprintf("c11-fresh:%d:%d:%s", i, len(extraFresh), spec))
						if er := runGenerate(ef, spec, s); er.OK() {
							extraFresh = append(extraFresh, readTree(ef))
						} else {
							extraFresh = append(extraFresh, map[string]string{})
						}
						_ = os.RemoveAll(filepath.Dir(ef))
					}
					matched := false
					for _, et := range extraFresh {
						if et[p] == got {
							matched = true
						}
					}
					if matched {
						o.Class("skipped:generator-output-not-repeatable")
						continue
					}
					// the listed C07 finding (a property referring to an alias of an alias is rendered differently from run to
					// run) can escape four repetitions: model files of such definitions are left to C07
					if m := reSwaggerModel.FindStringSubmatch(want); m != nil && aliasRelatedDefs(spec)[strings.TrimSpace(m[1])] {
						o.Class("skipped:alias-of-alias-model (C07 finding)")
						continue
					}
				}
				if !ok {
					o.Fail("C11|not-converged|missing|"+fileRole(p)+"|"+s.Target, "after step %d (%s) the file %s of a fresh generation is missing\nhistory: %v", i, step, p, hist)
				} else if got != want {
					how := "new-file"
					if importBlockOnly(want, got) {
						how = "import-block-only"
					} else if existed {
						switch {
						case len(want) < len(prev):
							how = "file-shrinks"
						case len(want) > len(prev):
							how = "file-grows"
						case want != prev:
							how = "same-size-change"
						default:
							how = "unchanged-input"
						}
					}
					o.Fail("C11|not-converged|"+how+"|"+fileRole(p)+"|"+s.Target, "after step %d (%s) %s differs from a fresh generation (%d vs %d bytes)\nhistory: %v\n%s", i, step, p, len(got), len(want), hist, firstDiff(want, got))
				}
			}
			if gens > 1 {
				o.NT(fmt.Sprintf("%s|after:%s|shrunk:%v|grown:%v|user:%v|configure-owned:%v", step, last(hist), shrunk > 0, grown > 0, len(user) > 0, configureOwned))
			}
			hist = append(hist, step)
			if len(o.Violations) > 0 {
				return
			}
		}
	}
	o.Sample = map[string]any{"history": hist}
	return
}

var reSwaggerModel = regexp.MustCompile(`(?m)^// swagger:model ([^\n]+)$`)

// aliasRelatedDefs: definitions that are a bare $ref to another definition, and the definitions that refer to one.
func aliasRelatedDefs(spec []byte) map[string]bool {
	out := map[string]bool{}
	doc, err := specgen.Parse(spec)
	if err != nil {
		return out
	}
	defs, _ := doc["definitions"].(J)
	alias := map[string]bool{}
	for n, d := range defs {
		if dj, ok := d.(J); ok {
			if _, isRef := dj["$ref"].(string); isRef {
				alias[n] = true
				out[n] = true
			}
		}
	}
	var walk func(v any, f func(J))
	walk = func(v any, f func(J)) {
		switch x := v.(type) {
		case J:
			f(x)
			for _, e := range x {
				walk(e, f)
			}
		case A:
			for _, e := range x {
				walk(e, f)
			}
		}
	}
	for n, d := range defs {
		walk(d, func(o J) {
			if r, ok := o["$ref"].(string); ok && alias[strings.TrimPrefix(r, "#/definitions/")] {
				out[n] = true
			}
		})
	}
	return out
}

var reImportLine = regexp.MustCompile(`^\s*([A-Za-z_][A-Za-z0-9_]* )?"[^"]+"\s*$`)

// importBlockOnly: the two files differ only in import lines.
func importBlockOnly(a, b string) bool {
	strip := func(s string) string {
		var keep []string
		for _, l := range strings.Split(s, "\n") {
			if !reImportLine.MatchString(l) && strings.TrimSpace(l) != "" {
				keep = append(keep, l)
			}
		}
		return strings.Join(keep, "\n")
	}
	return strip(a) == strip(b)
}

func last(h []string) string {
	if len(h) == 0 {
		return "start"
	}
	x := h[len(h)-1]
	if i := strings.Index(x, "["); i > 0 {
		x = x[:i]
	}
	return x
}

func tail(s string, n int) string {
	if len(s) > n {
		return "…" + s[len(s)-n:]
	}
	return s
}

func firstDiff(a, b string) string {
	al, bl := strings.Split(a, "\n"), strings.Split(b, "\n")
	for i := 0; i < len(al) || i < len(bl); i++ {
		var x, y string
		if i < len(al) {
			x = al[i]
		}
		if i < len(bl) {
			y = bl[i]
		}
		if x != y {
			return fmt.Sprintf("first difference at line %d:\n  fresh:  %.200q\n  target: %.200q", i+1, x, y)
		}
	}
	return "no line difference"
}

func TestProp(t *testing.T) {
	pbt.Main(t, pbt.Prop[Case]{
		ID:   "C11",
		Rule: "histories of 3-10 events over one target directory: generate {server, client, model, support, operation --name} with option subsets (--skip-tag-packages, --regenerate-configureapi, --exclude-main, --exclude-spec, --skip-models/-operations/-support, --strict-responders, --with-flatten=full, --no-* for operation), the spec evolving between runs (operation / parameter / response / property dropped or added, definition added, text changed; every evolution is followed by a regeneration), the user appending to the configure file, adding and editing own files (zz_user_* in generated package directories and elsewhere). Executed with the binary built from the tree. Oracle after every generate: (i) every user file still has the content the user gave it; (ii) an existing configure_<app>.go is byte-identical unless --regenerate-configureapi was passed; (iii) every file that the same command writes into an empty directory exists with identical bytes (the owned configure file excepted). Non-trivial: a generate that is not the first of its history; distinct by (command+options, previous event, whether files shrank / grew, user files present, configure owned).",
		Assumptions: []string{
			"user files carry names no generator output uses (zz_user_ prefix); files left behind by earlier runs are generator-produced and unconstrained",
			"a run that exits non-zero is only required to leave user files alone",
		},
		Gen:   gen,
		Check: check,
	})
}
