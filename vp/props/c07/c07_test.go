package c07

import (
	"encoding/json"
	"fmt"
	"os"
	"path/filepath"
	"regexp"
	"sort"
	"strings"
	"testing"
	"time"

	"pgregory.net/rapid"

	"verif/internal/pbt"
	"verif/internal/specgen"
	"verif/internal/swg"
	"verif/internal/work"
)

type J = specgen.J
type A = specgen.A

type Job struct {
	Kind string   `json:"kind"` // server | client | model | cli | markdown
	Spec int      `json:"spec"` // index into Specs
	Opts []string `json:"opts"`
}

type Case struct {
	Specs      []json.RawMessage `json:"specs"`
	Jobs       []Job             `json:"jobs"`
	Transforms []string          `json:"transforms"` // flatten | flatten-full | expand | mixin | diff | diff-json | genspec
	Concurrent bool              `json:"concurrent"`
	// DiffPair: the first spec with planted definitions and an edited copy of it (for diff / diff-json)
	DiffPair []json.RawMessage `json:"diff_pair,omitempty"`
}

func chance(t *rapid.T, label string, pct int) bool {
	return specgen.Uniform(t, label, 100) < pct
}

func genSpec(t *rapid.T, label string) J {
	formats := []string{"date", "date-time", "uuid", "email", "byte", "password", "uri"}
	var doc J
	// every document is drawn under its own label prefix
	cfg := &specgen.SpecCfg{
		Schema:  specgen.Opts{MaxDepth: 2, AddlProps: true, Formats: formats, Descr: true, Defaults: true, AllOf: true},
		Simple:  specgen.SimpleOpts{Defaults: true, MaxDepth: 2, Formats: formats},
		MinDefs: 3, MaxDefs: 7, MinPaths: 2, MaxPaths: 5, MaxParams: 3, AcyclicRefs: true,
		SharedParams: true, FormData: true, Body: true, UniqueParamNames: true,
		RespHeaders: true, DefaultResponse: true, Tags: true, Meta: true, Security: true, OpConsumes: true, Extensions: true,
		DefName: func(t *rapid.T, l string) string {
			n := specgen.PlainName(t, label+l)
			return strings.ToUpper(n[:1]) + n[1:]
		},
	}
	cfg.Schema.Core = true
	doc = specgen.Spec(t, cfg)
	// a definition that refers to itself makes `expand` / --with-expand order dependent (listed known finding,
	// replayed from the corpus): excluded by construction
	if defs, ok := doc["definitions"].(J); ok && os.Getenv("VERIF_C07_SELFREF") == "" {
		for _, n := range work.SortedKeys(defs) {
			self := "#/definitions/" + n
			walk(defs[n], func(o J) {
				if o["$ref"] == self {
					delete(o, "$ref")
					o["type"] = "string"
				}
			})
		}
	}
	if chance(t, label+"aliaschain", 12) {
		if defs, ok := doc["definitions"].(J); ok && defs["AliasBase"] == nil {
			defs["AliasBase"] = J{"type": "string", "format": "uuid", "description": "the thing"}
			defs["AliasMid"] = J{"$ref": "#/definitions/AliasBase"}
			defs["AliasHolder"] = J{"type": "object", "properties": J{"one": J{"$ref": "#/definitions/AliasMid"}, "two": J{"$ref": "#/definitions/AliasMid"}, "flag": J{"type": "boolean"}}, "required": A{"flag"}}
		}
	}
	return doc
}

func gen(t *rapid.T) Case {
	var c Case
	n := rapid.IntRange(2, 3).Draw(t, "nspecs")
	var docs []J
	for i := 0; i < n; i++ {
		d := genSpec(t, fmt.Sprintf("d%d_", i))
		// the documents must differ (title carries the index)
		d["info"].(J)["title"] = fmt.Sprintf("api %d", i)
		docs = append(docs, d)
		c.Specs = append(c.Specs, specgen.JSONBytes(d))
	}
	nj := rapid.IntRange(2, 4).Draw(t, "njobs")
	for i := 0; i < nj; i++ {
		l := fmt.Sprintf("job%d", i)
		j := Job{Kind: specgen.Pick(t, l+"_kind", []string{"server", "server", "client", "client", "model", "model", "cli", "markdown"}), Spec: specgen.Uniform(t, l+"_spec", n)}
		pool := map[string][]string{
			"server":   {"--skip-tag-packages", "--strict-responders", "--with-flatten=full", "--with-expand", "--exclude-main"},
			"client":   {"--skip-tag-packages", "--with-flatten=full", "--with-expand"},
			"model":    {"--struct-tags=yaml", "--with-flatten=full", "--keep-spec-order"},
			"cli":      {"--skip-tag-packages"},
			"markdown": {"--with-flatten=full"},
		}[j.Kind]
		for k, o := range pool {
			if chance(t, fmt.Sprintf("%s_o%d", l, k), 20) {
				if o == "--with-expand" && hasStr(j.Opts, "--with-flatten=full") {
					continue
				}
				j.Opts = append(j.Opts, o)
			}
		}
		c.Jobs = append(c.Jobs, j)
	}
	all := []string{"flatten", "flatten-full", "expand", "mixin", "diff", "diff-json", "genspec"}
	for i, tr := range all {
		if chance(t, fmt.Sprintf("tr%d", i), 30) {
			c.Transforms = append(c.Transforms, tr)
		}
	}
	c.Concurrent = chance(t, "concurrent", 60)
	// a related pair for the diff commands: definitions that no operation uses and that refer to each other, edited copy
	a := specgen.CloneJ(docs[0])
	if defs, ok := a["definitions"].(J); ok {
		np := rapid.IntRange(1, 3).Draw(t, "nplanted")
		for i := 0; i < np; i++ {
			defs[fmt.Sprintf("Unused%dInner", i)] = J{"type": "object", "properties": J{"name": J{"type": "string"}, "n": J{"type": "integer"}}}
			defs[fmt.Sprintf("Unused%dOuter", i)] = J{"type": "object", "properties": J{"inner": J{"$ref": fmt.Sprintf("#/definitions/Unused%dInner", i)}, "list": J{"type": "array", "items": J{"$ref": fmt.Sprintf("#/definitions/Unused%dInner", i)}}}}
		}
	}
	b := specgen.CloneJ(a)
	if defs, ok := b["definitions"].(J); ok {
		for i := 0; ; i++ {
			in, ok := defs[fmt.Sprintf("Unused%dInner", i)].(J)
			if !ok {
				break
			}
			if chance(t, fmt.Sprintf("planted%d_edit", i), 70) {
				in["properties"].(J)["name"] = J{"type": "integer"}
			}
		}
	}
	ne := rapid.IntRange(0, 5).Draw(t, "nedits")
	for i := 0; i < ne; i++ {
		specgen.RandomEdit(t, fmt.Sprintf("edit%d", i), b)
	}
	c.DiffPair = []json.RawMessage{specgen.JSONBytes(a), specgen.JSONBytes(b)}
	return c
}

func jobName(j Job) string {
	if hasStr(j.Opts, "--with-expand") {
		return "generate " + j.Kind + " --with-expand"
	}
	return "generate " + j.Kind
}

func walk(v any, f func(J)) {
	switch x := v.(type) {
	case J:
		f(x)
		for _, k := range work.SortedKeys(x) {
			walk(x[k], f)
		}
	case A:
		for _, e := range x {
			walk(e, f)
		}
	}
}

func hasStr(xs []string, s string) bool {
	for _, x := range xs {
		if x == s {
			return true
		}
	}
	return false
}

// ---------------------------------------------------------------------------

func readTree(dir string) map[string]string {
	out := map[string]string{}
	_ = filepath.Walk(dir, func(p string, info os.FileInfo, err error) error {
		if err != nil || info.IsDir() {
			return nil
		}
		rel, _ := filepath.Rel(dir, p)
		rel = filepath.ToSlash(rel)
		if rel == "go.mod" || rel == "go.sum" || strings.HasPrefix(rel, "swagger") && strings.HasSuffix(rel, ".json") {
			return nil
		}
		if b, err := os.ReadFile(p); err == nil {
			out[rel] = string(b)
		}
		return nil
	})
	return out
}

func jobArgs(j Job, specPath, dir string) []string {
	args := []string{"-f", specPath, "-t", dir}
	if j.Kind == "markdown" {
		args = append(args, "--output", "api.md")
	} else if j.Kind != "model" {
		args = append(args, "-A", "verif")
	}
	return append(args, j.Opts...)
}

func fileRole(rel string) string {
	parts := strings.Split(rel, "/")
	base := parts[len(parts)-1]
	for _, sfx := range []string{"_parameters.go", "_responses.go", "_urlbuilder.go", "_client.go", "_api.go", "_operation.go", "_model.go"} {
		if strings.HasSuffix(base, sfx) {
			return parts[0] + ":" + strings.TrimSuffix(sfx[1:], ".go")
		}
	}
	switch {
	case base == "embedded_spec.go" || base == "doc.go" || base == "server.go" || base == "main.go" || base == "cli.go" || base == "api.md":
		return parts[0] + ":" + base
	case strings.HasPrefix(base, "configure_"):
		return "restapi:configure"
	case parts[0] == "models":
		return "models:definition"
	case parts[0] == "restapi":
		return "restapi:handler"
	case parts[0] == "client" && len(parts) == 2:
		return "client:facade"
	}
	return parts[0] + ":other"
}

// diffClass: do two renderings hold the same lines in another order, or different content?
func diffClass(a, b string) string {
	al, bl := strings.Split(a, "\n"), strings.Split(b, "\n")
	sort.Strings(al)
	sort.Strings(bl)
	if strings.Join(al, "\n") == strings.Join(bl, "\n") {
		return "order"
	}
	return "content"
}

func firstDiff(a, b string) string {
	al, bl := strings.Split(a, "\n"), strings.Split(b, "\n")
	for i := 0; i < len(al) || i < len(bl); i++ {
		var x, y string
		if i < len(al) {
			x = al[i]
		}
		if i < len(bl) {
			y = bl[i]
		}
		if x != y {
			return fmt.Sprintf("line %d:\n  run A: %.220q\n  run B: %.220q", i+1, x, y)
		}
	}
	return ""
}

// compareTrees reports the files that differ between two runs of one command.
func compareTrees(o *pbt.Outcome, what, how string, a, b map[string]string, spec []byte) {
	seen := map[string]bool{}
	aliasRelated := aliasRelatedDefs(spec)
	for _, p := range work.SortedKeys(a) {
		bv, ok := b[p]
		if !ok {
			if !seen["missing|"+fileRole(p)] {
				seen["missing|"+fileRole(p)] = true
				o.Fail("C07|"+how+"|"+what+"|"+fileRole(p)+"|file-set", "%s: %s exists in one run only", what, p)
			}
			continue
		}
		if bv != a[p] {
			k := fileRole(p) + "|" + diffClass(a[p], bv)
			if role := fileRole(p); role == "models:definition" || role == "cli:model" {
				// which kind of definition is rendered differently?
				k += "|plain-definition"
				related := false
				if m := reSwaggerModel.FindStringSubmatch(a[p]); m != nil && aliasRelated[strings.TrimSpace(m[1])] {
					related = true
				}
				if role == "cli:model" {
					stem := lowerAlnum(strings.TrimSuffix(filepath.Base(p), "_model.go"))
					for n := range aliasRelated {
						if lowerAlnum(n) == stem {
							related = true
						}
					}
				}
				if !related {
					// a definition lifted by the flattener is not in the input: look at what the differing lines mention
					fd := lowerAlnum(firstDiff(a[p], bv))
					for n := range aliasRelated {
						if len(n) >= 3 && strings.Contains(fd, lowerAlnum(n)) {
							related = true
						}
					}
				}
				if related {
					k = strings.TrimSuffix(k, "|plain-definition") + "|alias-of-alias-chain"
				}
			}
			if fileRole(p) == "api.md:api.md" && len(aliasRelated) > 0 && diffClass(a[p], bv) == "content" {
				// the documentation of a spec that has alias definitions (same listed root cause as for the models)
				k += "|spec-with-alias-definitions"
			}
			if !seen[k] {
				seen[k] = true
				o.Fail("C07|"+how+"|"+what+"|"+k, "%s: %s differs between two runs on the same input\n%s", what, p, firstDiff(a[p], bv))
			}
		}
	}
	for _, p := range work.SortedKeys(b) {
		if _, ok := a[p]; !ok && !seen["missing|"+fileRole(p)] {
			seen["missing|"+fileRole(p)] = true
			o.Fail("C07|"+how+"|"+what+"|"+fileRole(p)+"|file-set", "%s: %s exists in one run only", what, p)
		}
	}
}

var reSwaggerModel = regexp.MustCompile(`(?m)^// swagger:model ([^\n]+)$`)

// aliasRelatedDefs: definitions that are a bare $ref to another definition, and the definitions that refer to one.
func aliasRelatedDefs(spec []byte) map[string]bool {
	out := map[string]bool{}
	doc, err := specgen.Parse(spec)
	if err != nil {
		return out
	}
	defs, _ := doc["definitions"].(J)
	alias := map[string]bool{}
	for n, d := range defs {
		if dj, ok := d.(J); ok {
			if _, isRef := dj["$ref"].(string); isRef {
				alias[n] = true
				out[n] = true
			}
		}
	}
	for n, d := range defs {
		walk(d, func(o J) {
			if r, ok := o["$ref"].(string); ok && alias[strings.TrimPrefix(r, "#/definitions/")] {
				out[n] = true
			}
		})
	}
	return out
}

func lowerAlnum(s string) string {
	var sb strings.Builder
	for _, r := range strings.ToLower(s) {
		if (r >= 'a' && r <= 'z') || (r >= '0' && r <= '9') {
			sb.WriteRune(r)
		}
	}
	return sb.String()
}

const repeats = 3

func check(c Case) (o pbt.Outcome) {
	for _, s := range c.Specs {
		if err := swg.ValidateSpec(s); err != nil {
			o.Discard = true
			o.Class("discard:invalid-spec")
			return
		}
	}
	root := work.NewModule("c07:" + string(c.Specs[0]) + fmt.Sprint(len(c.Jobs)))
	base := filepath.Dir(root)
	defer os.RemoveAll(base)
	specPaths := make([]string, len(c.Specs))
	for i, s := range c.Specs {
		specPaths[i] = filepath.Join(base, fmt.Sprintf("swagger%d.json", i))
		_ = os.WriteFile(specPaths[i], s, 0o644)
	}
	// all targets of one run live in one module (<run>/verifgen/t<job>) and every process works from the module
	// root: import resolution of the generated code depends on the module around the target and on the
	// working directory, which are inputs
	newRoot := func(tag string) string {
		d := filepath.Join(base, tag, work.ModuleName)
		_ = os.MkdirAll(d, 0o755)
		work.InitModule(d)
		return d
	}
	jobDir := func(root string, job int) string {
		d := filepath.Join(root, fmt.Sprintf("t%d", job))
		_ = os.MkdirAll(d, 0o755)
		return d
	}
	// Part A: every job, repeated in new processes
	ref := make([]map[string]string, len(c.Jobs))
	usable := make([]bool, len(c.Jobs))
	for ji, j := range c.Jobs {
		what := jobName(j)
		o.Class("job:" + j.Kind)
		var trees []map[string]string
		failed := false
		for r := 0; r < repeats; r++ {
			root := newRoot(fmt.Sprintf("j%d-r%d", ji, r))
			d := jobDir(root, ji)
			res := work.SwaggerGen(root, append([]string{"generate", j.Kind, "-q"}, jobArgs(j, specPaths[j.Spec], d)...)...)
			o.Evals++
			if !res.OK() {
				failed = true
				break
			}
			trees = append(trees, readTree(d))
		}
		if failed {
			o.Class("job-failed:" + j.Kind) // C01's subject
			continue
		}
		for r := 1; r < len(trees); r++ {
			compareTrees(&o, what, "not-repeatable", trees[0], trees[r], c.Specs[j.Spec])
		}
		ref[ji], usable[ji] = trees[0], true
		o.NT(what + "|" + strings.Join(j.Opts, " "))
	}
	// other commands, repeated in new processes
	for _, tr := range c.Transforms {
		outs := transformRuns(base, tr, specPaths, c)
		if outs == nil {
			o.Class("transform-failed:" + tr)
			continue
		}
		o.Class("transform:" + tr)
		o.Evals += len(outs)
		for r := 1; r < len(outs); r++ {
			if outs[r] != outs[0] {
				o.Fail("C07|not-repeatable|"+tr+"|"+diffClass(outs[0], outs[r]), "%s: two runs on the same input give different output\n%s", tr, firstDiff(outs[0], outs[r]))
				break
			}
		}
		o.NT("transform|" + tr)
	}
	if len(o.Violations) > 0 {
		return
	}
	// Part B: all jobs at once in one process (race detector on)
	helper := os.Getenv("VERIF_C07_HELPER")
	if c.Concurrent && helper != "" {
		type hj struct {
			Kind string   `json:"kind"`
			Args []string `json:"args"`
		}
		var jobs []hj
		var dirs []string
		var idx []int
		croot := newRoot("conc")
		for ji, j := range c.Jobs {
			if !usable[ji] {
				continue
			}
			d := jobDir(croot, ji)
			jobs = append(jobs, hj{Kind: j.Kind, Args: jobArgs(j, specPaths[j.Spec], d)})
			dirs = append(dirs, d)
			idx = append(idx, ji)
		}
		if len(jobs) >= 2 {
			in, _ := json.Marshal(jobs)
			stdout, stderr, res := work.RunSplit(croot, 10*time.Minute, in, helper)
			o.Evals++
			kinds := make([]string, len(jobs))
			for i, j := range jobs {
				kinds[i] = j.Kind
			}
			sort.Strings(kinds)
			o.Class("concurrent:" + strings.Join(kinds, "+"))
			if strings.Contains(stderr, "DATA RACE") {
				o.Fail("C07|data-race|"+raceSite(stderr), "concurrent generations (%v) in one process: the race detector reports\n%s", kinds, tail(stderr, 2500))
				return
			}
			if res.Err != nil && !strings.Contains(stderr, "DATA RACE") {
				o.Fail("C07|concurrent-crash|"+strings.Join(kinds, "+"), "concurrent generations (%v) in one process died: %v\n%s", kinds, res.Err, tail(stderr, 1500))
				return
			}
			var errs []string
			_ = json.Unmarshal([]byte(stdout), &errs)
			for i, e := range errs {
				if e != "" {
					o.Fail("C07|concurrent-error|"+jobs[i].Kind, "generate %s succeeds alone and fails when run concurrently with others: %s", jobs[i].Kind, e)
				}
			}
			if len(o.Violations) == 0 {
				for i, d := range dirs {
					compareTrees(&o, jobName(c.Jobs[idx[i]]), "concurrent-differs", ref[idx[i]], readTree(d), c.Specs[c.Jobs[idx[i]].Spec])
				}
			}
			o.NT("concurrent|" + strings.Join(kinds, "+"))
		}
	}
	o.Sample = map[string]any{"jobs": len(c.Jobs), "transforms": c.Transforms, "concurrent": c.Concurrent}
	return
}

// raceSite: the first go-swagger (or library) frame of the first race report.
func raceSite(stderr string) string {
	if strings.Contains(stderr, "swag.AddInitialisms") {
		return "swag.AddInitialisms" // process-global initialism table of go-openapi/swag, written by every generate command
	}
	lines := strings.Split(stderr, "\n")
	for i, l := range lines {
		if strings.Contains(l, "DATA RACE") {
			for _, m := range lines[i:] {
				m = strings.TrimSpace(m)
				if strings.HasPrefix(m, "github.com/") && !strings.Contains(m, "c07helper") {
					if k := strings.Index(m, "("); k > 0 {
						m = m[:k]
					}
					return m
				}
			}
		}
	}
	return "unknown"
}

func tail(s string, n int) string {
	if len(s) > n {
		return "…" + s[len(s)-n:]
	}
	return s
}

// transformRuns executes a spec-transforming / reporting command `repeats` times and returns the outputs.
func transformRuns(base, tr string, specs []string, c Case) []string {
	var outs []string
	reps := repeats
	if tr == "diff" || tr == "diff-json" {
		reps = 8 // cheap, and some order dependences show in one run out of eight only
		if len(c.DiffPair) == 2 {
			pa, pb := filepath.Join(base, "diff-a.json"), filepath.Join(base, "diff-b.json")
			_ = os.WriteFile(pa, c.DiffPair[0], 0o644)
			_ = os.WriteFile(pb, c.DiffPair[1], 0o644)
			specs = []string{pa, pb}
		}
	}
	for r := 0; r < reps; r++ {
		d := filepath.Join(base, fmt.Sprintf("t-%s-%d", tr, r))
		_ = os.MkdirAll(d, 0o755)
		out := filepath.Join(d, "out.json")
		var res work.Result
		var stdout string
		switch tr {
		case "flatten":
			res = work.SwaggerGen(d, "flatten", "-q", specs[0], "-o", out)
		case "flatten-full":
			res = work.SwaggerGen(d, "flatten", "-q", "--with-flatten=full", specs[0], "-o", out, "--format", "yaml")
		case "expand":
			res = work.SwaggerGen(d, "expand", "-q", specs[0], "-o", out)
		case "mixin":
			if len(specs) < 2 {
				return nil
			}
			res = work.SwaggerGen(d, append([]string{"mixin", "-q", "-o", out}, specs...)...)
			if res.ExitCode == 254 || res.ExitCode > 0 && fileExists(out) {
				res.Err = nil // mixin exits with the number of collisions
			}
		case "diff", "diff-json":
			if len(specs) < 2 {
				return nil
			}
			args := []string{"diff", specs[0], specs[1]}
			if tr == "diff-json" {
				args = append(args, "-f", "json")
			}
			var so, se string
			so, se, res = work.RunSplit(d, 2*time.Minute, nil, work.Swagger(), args...)
			_ = se
			stdout = so
			if res.ExitCode == 1 || res.ExitCode == 0 {
				res.Err = nil // breaking changes found
			}
		case "genspec":
			// scan the models generated from the first spec
			md := filepath.Join(d, work.ModuleName)
			_ = os.MkdirAll(md, 0o755)
			work.InitModule(md)
			if g := work.SwaggerGen(md, "generate", "model", "-q", "-f", specs[0], "-t", md); !g.OK() {
				return nil
			}
			res = work.SwaggerGen(md, "generate", "spec", "-q", "-m", "-w", md, "-o", out)
		}
		if res.Err != nil {
			return nil
		}
		if stdout == "" {
			b, err := os.ReadFile(out)
			if err != nil {
				return nil
			}
			stdout = string(b)
		}
		outs = append(outs, stdout)
	}
	return outs
}

func fileExists(p string) bool { _, err := os.Stat(p); return err == nil }

func TestProp(t *testing.T) {
	pbt.Main(t, pbt.Prop[Case]{
		ID:   "C07",
		Rule: "2-3 distinct valid specs (3-7 definitions, 2-5 paths, tags, security, extensions, allOf, maps) and 2-4 generation jobs over them (server / client / model / cli / markdown with option subsets) plus a random subset of {flatten, flatten --with-flatten=full --format yaml, expand, mixin, diff, diff -f json, generate spec over generated models}. Every job and command is run 3 times in new processes (fresh hash seeds) with the binary built from the tree and the outputs compared byte by byte (file set and contents; stdout / -o file). In 60% of the cases all jobs are also run at once in one process through the exported command structs (helper built with -race): the race detector must stay silent, no job may fail that succeeds alone, and each target tree must equal the one produced alone. Non-trivial: a job or command that ran 3 times / a concurrent batch; distinct by (command, options) and by batch composition.",
		Assumptions: []string{
			"jobs that fail on their own (generated code problems) are C01's subject and skipped",
			"three repetitions per case: an order-dependence that shows with probability p per run is caught with probability 1-(1-p)^2 per case",
		},
		Gen:   gen,
		Check: check,
	})
}
