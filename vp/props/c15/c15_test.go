package c15

import (
	"encoding/json"
	"fmt"
	"os"
	"path/filepath"
	"sort"
	"strings"
	"testing"

	"github.com/go-swagger/go-swagger/cmd/swagger/commands"
	"github.com/go-swagger/go-swagger/cmd/swagger/commands/diff"
	"pgregory.net/rapid"

	"verif/internal/diffx"
	"verif/internal/pbt"
	"verif/internal/specgen"
	"verif/internal/swg"
)

type Case struct {
	A     json.RawMessage `json:"a"`
	B     json.RawMessage `json:"b"`
	Edits []string        `json:"edits"`
	Mode  string          `json:"mode"` // subset selection: none | all | mask | one
	Mask  uint64          `json:"mask"`
}

func gen(t *rapid.T) Case {
	a, b, kinds := diffx.GenPair(t, 6)
	return Case{A: specgen.JSONBytes(a), B: specgen.JSONBytes(b), Edits: kinds,
		Mode: rapid.SampledFrom([]string{"mask", "mask", "all", "one", "none"}).Draw(t, "mode"),
		Mask: rapid.Uint64().Draw(t, "mask")}
}

var tmpDir string

func tmp() string {
	if tmpDir == "" {
		d, err := os.MkdirTemp(pbt.Getenv("VERIF_SCRATCH", ""), "c15-")
		if err != nil {
			panic(err)
		}
		tmpDir = d
	}
	return tmpDir
}

type run struct {
	out      string
	err      error
	panicked bool
	pmsg     string
}

func execDiff(pa, pb, format string, onlyBreaking bool, ignore string) run {
	dir := tmp()
	dest := filepath.Join(dir, "out.txt")
	_ = os.Remove(dest)
	cmd := &commands.DiffCommand{Format: format, IgnoreFile: "none specified", Destination: dest, OnlyBreakingChanges: onlyBreaking}
	if ignore != "" {
		cmd.IgnoreFile = ignore
	}
	cmd.Args.OldSpec, cmd.Args.NewSpec = pa, pb
	var r run
	r.panicked, r.pmsg, _ = pbt.Recover(func() { r.err = cmd.Execute(nil) })
	b, _ := os.ReadFile(dest)
	r.out = string(b)
	return r
}

func parseReport(s string) ([]json.RawMessage, diff.SpecDifferences, error) {
	var raws []json.RawMessage
	if err := json.Unmarshal([]byte(s), &raws); err != nil {
		return nil, nil, err
	}
	var ds diff.SpecDifferences
	if err := json.Unmarshal([]byte(s), &ds); err != nil {
		return nil, nil, err
	}
	return raws, ds, nil
}

func canon(raw json.RawMessage) string {
	var v any
	_ = json.Unmarshal(raw, &v)
	b, _ := json.Marshal(v)
	return string(b)
}

func multiset(xs []string) map[string]int {
	m := map[string]int{}
	for _, x := range xs {
		m[x]++
	}
	return m
}

func sameMultiset(a, b []string) (bool, string) {
	ma, mb := multiset(a), multiset(b)
	var diffs []string
	for k, v := range ma {
		if mb[k] != v {
			diffs = append(diffs, fmt.Sprintf("%dx/%dx %s", v, mb[k], k))
		}
	}
	for k, v := range mb {
		if _, ok := ma[k]; !ok {
			diffs = append(diffs, fmt.Sprintf("0x/%dx %s", v, k))
		}
	}
	sort.Strings(diffs)
	if len(diffs) > 6 {
		diffs = diffs[:6]
	}
	return len(diffs) == 0, strings.Join(diffs, "\n    ")
}

// parseTxt splits a text report into its three sections.
func parseTxt(s string) (nonBreaking, warning, breaking []string, verdict string) {
	section := ""
	for _, l := range strings.Split(s, "\n") {
		switch {
		case l == "NON-BREAKING CHANGES:":
			section = "n"
		case l == "NON-BREAKING CHANGES WITH WARNING:":
			section = "w"
		case l == "BREAKING CHANGES:":
			section = "b"
		case strings.HasPrefix(l, "====") || l == "":
		case strings.HasPrefix(l, "compatibility test ") || l == "No changes identified":
			verdict = l
		default:
			switch section {
			case "n":
				nonBreaking = append(nonBreaking, l)
			case "w":
				warning = append(warning, l)
			case "b":
				breaking = append(breaking, l)
			default:
				verdict += "|stray:" + l
			}
		}
	}
	return
}

func check(c Case) (o pbt.Outcome) {
	swg.Quiet()
	sampled := len(c.A)%4 == 0
	defer func() {
		if len(o.Violations) == 0 && !sampled {
			o.NonTrivial = nil
			o.Class("validity:not-sampled")
			return
		}
		if swg.ValidateSpec(c.A) != nil || swg.ValidateSpec(c.B) != nil {
			o.Violations, o.NonTrivial = nil, nil
			o.Discard = true
			o.Class("validity:invalid-discarded")
		} else {
			o.Class("validity:validated")
		}
	}()
	dir := tmp()
	pa := swg.WriteTemp(dir, "a.json", c.A)
	pb := swg.WriteTemp(dir, "b.json", c.B)
	rj := execDiff(pa, pb, "json", false, "")
	rt := execDiff(pa, pb, "txt", false, "")
	rb := execDiff(pa, pb, "txt", true, "")
	for _, r := range []run{rj, rt, rb} {
		if r.panicked {
			o.Class("skipped:diff-crashed")
			return
		}
	}
	raws, ds, err := parseReport(rj.out)
	if err != nil {
		o.Fail("C15|json-report-unparsable", "the JSON report cannot be read back: %v\n%s", err, trunc(rj.out))
		return
	}
	breaking := ds.BreakingChangeCount()
	o.Class(fmt.Sprintf("report-size:%s", bucket(len(ds))))
	o.Sample = map[string]any{"edits": c.Edits, "mode": c.Mode, "report": len(ds), "breaking": breaking}

	// (1) exit status <=> some Breaking entry, for every output format
	for name, r := range map[string]run{"txt": rt, "txt-b": rb, "json": rj} {
		if (r.err != nil) != (breaking > 0) {
			o.Fail("C15|exit-status|"+name, "format %s: returned error=%v but the report has %d Breaking entries", name, r.err, breaking)
		}
	}
	// (2) the three reports describe the same set of differences
	var wantN, wantW, wantB []string
	for _, d := range ds {
		switch d.Compatibility {
		case diff.Breaking:
			wantB = append(wantB, d.String())
		case diff.Warning:
			wantW = append(wantW, d.String())
		default:
			wantN = append(wantN, d.String())
		}
	}
	multiline := false
	for _, d := range ds {
		if strings.Contains(d.String(), "\n") {
			multiline = true
		}
	}
	if !multiline {
		gotN, gotW, gotB, verdict := parseTxt(rt.out)
		if ok, why := sameMultiset(wantN, gotN); !ok {
			o.Fail("C15|txt-vs-json|non-breaking", "text report and JSON report disagree on non-breaking entries (json/txt):\n    %s", why)
		}
		if ok, why := sameMultiset(wantW, gotW); !ok {
			o.Fail("C15|txt-vs-json|warning", "text report and JSON report disagree on warning entries (json/txt):\n    %s", why)
		}
		if ok, why := sameMultiset(wantB, gotB); !ok {
			o.Fail("C15|txt-vs-json|breaking", "text report and JSON report disagree on breaking entries (json/txt):\n    %s", why)
		}
		if strings.Contains(verdict, "stray") {
			o.Fail("C15|txt-stray-line", "text report has lines outside any section: %s", verdict)
		}
		bn, bw, bb, _ := parseTxt(rb.out)
		if len(bn)+len(bw) > 0 {
			o.Fail("C15|breaking-only|lists-non-breaking", "-b report lists non-breaking entries: %v %v", bn, bw)
		}
		if ok, why := sameMultiset(wantB, bb); !ok {
			o.Fail("C15|breaking-only|vs-json", "-b report and JSON report disagree on breaking entries (json/-b):\n    %s", why)
		}
	} else {
		o.Class("multiline-entry:txt-comparison-skipped")
	}
	// (3) JSON round trip of every difference
	for i, d := range ds {
		b, err := json.Marshal(d)
		var back diff.SpecDifference
		if err == nil {
			err = json.Unmarshal(b, &back)
		}
		if err != nil || !back.Matches(d) {
			o.Fail("C15|json-roundtrip|"+d.Code.Description(), "difference %d does not survive a JSON round trip: %v\n  %s", i, err, b)
			break
		}
	}
	// (4) ignore file: verbatim entries of the JSON report
	order := make([]int, len(raws))
	for i := range order {
		order[i] = i
	}
	sort.Slice(order, func(i, j int) bool { return canon(raws[order[i]]) < canon(raws[order[j]]) })
	var sel []int
	switch c.Mode {
	case "all":
		sel = order
	case "one":
		if len(order) > 0 {
			sel = []int{order[int(c.Mask%uint64(len(order)))]}
		}
	case "mask":
		for k, i := range order {
			if c.Mask&(1<<(uint(k)%64)) != 0 {
				sel = append(sel, i)
			}
		}
	}
	o.Class("ignore-mode:" + c.Mode)
	var ignored diff.SpecDifferences
	var ignoreRaw []json.RawMessage
	for _, i := range sel {
		ignored = append(ignored, ds[i])
		ignoreRaw = append(ignoreRaw, raws[i])
	}
	if ignoreRaw == nil {
		ignoreRaw = []json.RawMessage{}
	}
	ib, _ := json.Marshal(ignoreRaw)
	ip := swg.WriteTemp(dir, "ignore.json", ib)
	if c.Mode == "all" {
		ip = swg.WriteTemp(dir, "ignore.json", []byte(rj.out)) // verbatim report
	}
	r2 := execDiff(pa, pb, "json", false, ip)
	r2t := execDiff(pa, pb, "txt", false, ip)
	if r2.panicked || r2t.panicked {
		o.Fail("C15|ignore-panic", "diff with an ignore file panicked: %s %s", r2.pmsg, r2t.pmsg)
		return
	}
	_, ds2, err := parseReport(r2.out)
	if err != nil {
		o.Fail("C15|ignore|report-unparsable", "report with ignore file unreadable (err=%v, cmd err=%v):\n%s", err, r2.err, trunc(r2.out))
		return
	}
	// expected: every entry of the first report that matches no ignored entry
	var want, got []string
	for _, d := range ds {
		keep := true
		for _, ig := range ignored {
			if ig.Matches(d) {
				keep = false
			}
		}
		if keep {
			want = append(want, key(d))
		}
	}
	for _, d := range ds2 {
		got = append(got, key(d))
	}
	if ok, why := sameMultiset(want, got); !ok {
		o.Fail("C15|ignore|"+c.Mode+"|wrong-remainder", "ignoring %d of %d entries: remaining report differs from expectation (expected/got):\n    %s", len(ignored), len(ds), why)
	}
	remBreaking := ds2.BreakingChangeCount()
	if (r2t.err != nil) != (remBreaking > 0) {
		o.Fail("C15|ignore|exit-status|txt", "with ignore file: txt run returned error=%v but %d non-ignored Breaking entries remain", r2t.err, remBreaking)
	}
	if c.Mode == "all" && (len(ds2) != 0 || r2t.err != nil) {
		o.Fail("C15|ignore|all|not-empty", "ignoring the whole report leaves %d entries, txt error=%v", len(ds2), r2t.err)
	}
	if len(ds) >= 2 && len(sel) > 0 && len(sel) < len(ds) {
		ek := append([]string{}, c.Edits...)
		sort.Strings(ek)
		o.NT(fmt.Sprintf("%s|%s|%d/%d|b%d", c.Mode, strings.Join(ek, ","), len(sel), len(ds), breaking))
	} else if len(ds) >= 1 && c.Mode == "all" {
		o.NT(fmt.Sprintf("all|%v|%d", c.Edits, len(ds)))
	}
	return
}

func key(d diff.SpecDifference) string {
	b, _ := json.Marshal(d)
	return string(b)
}

func trunc(s string) string {
	if len(s) > 600 {
		return s[:600] + "…"
	}
	return s
}

func bucket(n int) string {
	switch {
	case n == 0:
		return "0"
	case n < 3:
		return "1-2"
	case n < 10:
		return "3-9"
	}
	return "10+"
}

// TestCodes: exhaustive JSON round trip over every change code and compatibility value.
func codesRoundTrip() []pbt.Violation {
	var out []pbt.Violation
	seen := map[string]diff.SpecChangeCode{}
	for code := diff.NoChangeDetected; code <= diff.ChangedExtensionValue; code++ {
		d := diff.SpecDifference{Code: code, Compatibility: diff.Breaking, DiffInfo: "i", DifferenceLocation: diff.DifferenceLocation{URL: "/u", Method: "get", Response: 200, Node: &diff.Node{Field: "f", TypeName: "t", IsArray: true, ChildNode: &diff.Node{Field: "c"}}}}
		b, err := json.Marshal(d)
		var back diff.SpecDifference
		if err == nil {
			err = json.Unmarshal(b, &back)
		}
		if err != nil || !back.Matches(d) {
			out = append(out, pbt.Violation{Sig: fmt.Sprintf("C15|code-roundtrip|%d", int(code)), Msg: fmt.Sprintf("change code %d (%s) does not survive JSON: %v %s", int(code), code.Description(), err, b)})
			continue
		}
		var m map[string]any
		_ = json.Unmarshal(b, &m)
		name := fmt.Sprint(m["code"])
		if prev, dup := seen[name]; dup {
			out = append(out, pbt.Violation{Sig: "C15|code-name-collision", Msg: fmt.Sprintf("codes %d and %d share the JSON name %q", int(prev), int(code), name)})
		}
		seen[name] = code
	}
	return out
}

func TestProp(t *testing.T) {
	first := true
	pbt.Main(t, pbt.Prop[Case]{
		ID:   "C15",
		Rule: "pairs (A, A+1..6 catalogue edits) x subset of the reported differences (none, all = the verbatim JSON report, one entry, random mask over the canonically sorted entries) fed back as ignore file. Oracle: exit status (returned error) != 0 <=> a non-ignored Breaking entry exists, for txt, -b and json; text sections / -b list / JSON report describe the same multiset; JSON round trip of every difference and (exhaustively) of every change code; report with ignore file = first report minus entries matching an ignored one. Non-trivial: report of >=2 entries with a proper non-empty subset ignored, or a non-empty report ignored entirely; distinct by (mode, edit kinds, subset size, breaking count).",
		Assumptions: []string{
			"commands.DiffCommand.Execute (the object the CLI runs) is driven in-process; a returned error is what main() turns into a non-zero exit status",
			"validity decided by validate.Spec on every violating case and a 1-in-4 sample of the others",
		},
		Gen: gen,
		Check: func(c Case) pbt.Outcome {
			o := check(c)
			if first {
				first = false
				o.Violations = append(o.Violations, codesRoundTrip()...)
				o.Class("exhaustive-code-roundtrip")
			}
			return o
		},
	})
}
