package c10

import (
	"encoding/json"
	"fmt"
	"os"
	"path/filepath"
	"sort"
	"strings"
	"testing"

	"pgregory.net/rapid"

	"verif/internal/pbt"
	"verif/internal/refmodel"
	"verif/internal/specgen"
	"verif/internal/swg"
	"verif/internal/work"
)

type J = specgen.J
type A = specgen.A

type Case struct {
	Spec   json.RawMessage `json:"spec"`
	YAML   bool            `json:"yaml"`    // input rendering
	Flatten string         `json:"flatten"` // minimal | full | expand
}

// hostile free text for a Go raw string / JSON / YAML pipeline
func text(t *rapid.T, label string) string {
	if rapid.IntRange(0, 2).Draw(t, label+"_plain") > 0 {
		return rapid.SampledFrom([]string{"some text", "another text", "plain words"}).Draw(t, label)
	}
	pool := []string{"back`tick", "``", "`+\"`\"+`", "quote\"d", "it's", "back\\slash", "tab\there", "line\nbreak", "cr\rlf\r\n", "bell\u0007", "esc\u001b[0m", "é ü 名前 \U0001F600", "</script>", "{{ .X }}", "%s %d %%", "${var}", "a: b #c", "- x", " ls ps", "\\u0041", "\\n", "trailing space ", " leading"}
	a := rapid.SampledFrom(pool).Draw(t, label+"_a")
	if rapid.Bool().Draw(t, label+"_two") {
		return a + " " + rapid.SampledFrom(pool).Draw(t, label+"_b")
	}
	return a
}

func cfg() *specgen.SpecCfg {
	return &specgen.SpecCfg{
		Schema: specgen.Opts{MaxDepth: 3, AllOf: true, AddlProps: true, Defaults: true, Examples: true, Descr: true, Extensions: true,
			Text: text, Formats: []string{"date", "date-time", "uuid", "email", "byte", "password", "uri"}},
		Simple:  specgen.SimpleOpts{Defaults: true, MaxDepth: 2, Extensions: true},
		MinDefs: 1, MaxDefs: 4, MinPaths: 1, MaxPaths: 3, MaxParams: 3, AcyclicRefs: true,
		Tags: true, Meta: true, Security: true, Extensions: true, SharedParams: true, RespHeaders: true,
		FormData: true, Body: true, DefaultResponse: true, OpConsumes: true, UniqueParamNames: true, MissingOpIDs: true,
		Methods: []string{"get", "put", "post", "delete", "patch"}, Text: text,
	}
}

func gen(t *rapid.T) Case {
	doc := specgen.Spec(t, cfg())
	return Case{Spec: specgen.JSONBytes(doc), YAML: rapid.Bool().Draw(t, "yaml"),
		Flatten: rapid.SampledFrom([]string{"minimal", "minimal", "full", "expand"}).Draw(t, "flatten")}
}

// expand resolves every local $ref (definitions, parameters, responses) of doc in
// place-independent fashion; recursion is cut with a marker naming the cycle target.
func expand(root J, v any, stack []string, depth int) any {
	if depth > 40 {
		return "$too-deep"
	}
	switch x := v.(type) {
	case map[string]any:
		if r, ok := x["$ref"].(string); ok && strings.HasPrefix(r, "#/") {
			for _, s := range stack {
				if s == r {
					return J{"$cycle": true}
				}
			}
			target := lookup(root, r)
			if target == nil {
				return J{"$dangling": r}
			}
			return expand(root, target, append(append([]string{}, stack...), r), depth+1)
		}
		out := J{}
		for k, e := range x {
			if strings.HasPrefix(k, "x-go-") || k == "x-go-gen-location" {
				continue
			}
			out[k] = expand(root, e, stack, depth+1)
		}
		return out
	case []any:
		out := make(A, len(x))
		for i, e := range x {
			out[i] = expand(root, e, stack, depth+1)
		}
		return out
	}
	return v
}

// refName: cycles are compared by the *content identity* of the target, which the
// flattener may have renamed; use the canonical text of the unexpanded target.
func refName(root J, r string) string {
	t := lookup(root, r)
	b, _ := json.Marshal(stripGo(t))
	if len(b) > 60 {
		return fmt.Sprintf("%x", hash(b))
	}
	return string(b)
}

func hash(b []byte) uint64 {
	var h uint64 = 1469598103934665603
	for _, c := range b {
		h ^= uint64(c)
		h *= 1099511628211
	}
	return h
}

func stripGo(v any) any {
	switch x := v.(type) {
	case map[string]any:
		out := J{}
		for k, e := range x {
			if strings.HasPrefix(k, "x-go-") {
				continue
			}
			if k == "$ref" {
				out[k] = "ref" // names of lifted definitions are not compared
				continue
			}
			out[k] = stripGo(e)
		}
		return out
	case []any:
		out := make(A, len(x))
		for i, e := range x {
			out[i] = stripGo(e)
		}
		return out
	}
	return v
}

func lookup(root J, ref string) any {
	parts := strings.Split(strings.TrimPrefix(ref, "#/"), "/")
	var cur any = root
	for _, p := range parts {
		p = strings.ReplaceAll(strings.ReplaceAll(p, "~1", "/"), "~0", "~")
		m, ok := cur.(map[string]any)
		if !ok {
			return nil
		}
		cur, ok = m[p]
		if !ok {
			return nil
		}
	}
	return cur
}

// firstDiff between two JSON trees ("" when equal).
func firstDiff(a, b any, path string) string {
	// where recursion is cut depends on how often the producer unrolled a cycle: a cut on either side matches anything
	if isCycleCut(a) || isCycleCut(b) {
		return ""
	}
	switch x := a.(type) {
	case map[string]any:
		y, ok := b.(map[string]any)
		if !ok {
			return fmt.Sprintf("%s: object vs %s", path, short(b))
		}
		keys := map[string]bool{}
		for k := range x {
			keys[k] = true
		}
		for k := range y {
			keys[k] = true
		}
		ks := make([]string, 0, len(keys))
		for k := range keys {
			ks = append(ks, k)
		}
		sort.Strings(ks)
		for _, k := range ks {
			xv, xo := x[k]
			yv, yo := y[k]
			if !xo {
				return fmt.Sprintf("%s.%s: added %s", path, k, short(yv))
			}
			if !yo {
				return fmt.Sprintf("%s.%s: lost %s", path, k, short(xv))
			}
			if d := firstDiff(xv, yv, path+"."+k); d != "" {
				return d
			}
		}
		return ""
	case []any:
		y, ok := b.([]any)
		if !ok || len(x) != len(y) {
			return fmt.Sprintf("%s: array %s vs %s", path, short(a), short(b))
		}
		for i := range x {
			if d := firstDiff(x[i], y[i], fmt.Sprintf("%s[%d]", path, i)); d != "" {
				return d
			}
		}
		return ""
	}
	if !refmodel.JSONEqual(a, b) {
		return fmt.Sprintf("%s: %s vs %s", path, short(a), short(b))
	}
	return ""
}

func isCycleCut(v any) bool {
	m, ok := v.(map[string]any)
	return ok && m["$cycle"] == true
}

func short(v any) string {
	b, _ := json.Marshal(v)
	if len(b) > 160 {
		return string(b[:160]) + "…"
	}
	return string(b)
}

// diffClass abstracts a difference path for the signature.
func diffClass(d string) string {
	p := d
	rest := ""
	if i := strings.Index(p, ": "); i >= 0 {
		p, rest = p[:i], d[i+2:]
	}
	kind := "changed"
	switch {
	case strings.HasPrefix(rest, "added "):
		kind = "added"
	case strings.HasPrefix(rest, "lost "):
		kind = "lost"
	}
	parts := strings.Split(p, ".")
	last := parts[len(parts)-1]
	if i := strings.Index(last, "["); i >= 0 {
		last = last[:i]
	}
	top := "?"
	if len(parts) > 1 {
		top = parts[1]
	}
	switch {
	case strings.HasPrefix(last, "x-") && strings.Contains(p, ".headers."):
		return "response-header-extension-lost"
	case kind == "lost" && rest == "lost 0":
		return "zero-valued-validation-keyword-lost"
	case strings.HasPrefix(last, "x-"):
		return kind + "|" + top + "|x-extension"
	}
	return kind + "|" + top + "|" + last
}

func check(c Case) (o pbt.Outcome) {
	if err := swg.ValidateSpec(c.Spec); err != nil {
		o.Discard = true
		o.Class("discard:invalid-spec")
		return
	}
	input, _ := specgen.Parse(c.Spec)
	// write the input rendering the case asks for and generate from that file
	dir, err := os.MkdirTemp(work.Scratch(), "c10spec-")
	if err != nil {
		panic(err)
	}
	defer os.RemoveAll(dir)
	specPath := filepath.Join(dir, "spec.json")
	content := []byte(c.Spec)
	if c.YAML {
		specPath = filepath.Join(dir, "spec.yaml")
		content = specgen.YAML(input)
	}
	_ = os.WriteFile(specPath, content, 0o644)
	var extra []string
	switch c.Flatten {
	case "full":
		extra = []string{"--with-flatten=full"}
	case "expand":
		extra = []string{"--with-expand"}
	}
	prog := work.BuildServerFromFile(specPath, content, false, extra...)
	defer prog.Drop()
	if !prog.Usable() {
		o.Class("unusable-program:" + prog.Stage)
		if os.Getenv("VERIF_DEBUG") != "" {
			r := prog.Reason
			if i := strings.LastIndex(strings.TrimSpace(r), "\n"); i >= 0 {
				r = strings.TrimSpace(r)[i+1:]
			}
			if len(r) > 200 {
				r = r[:200]
			}
			o.Class("why-unusable: " + r)
		}
		o.Discard = true
		return
	}
	basePath, _ := input["basePath"].(string)
	basePath = strings.TrimRight(basePath, "/")
	resps, err := prog.Exec([]work.SrvReq{{Op: "info"}, {Op: "request", Method: "get", URL: basePath + "/swagger.json"}, {Op: "request", Method: "get", URL: "/swagger.json"}})
	if err != nil {
		o.Fail("C10|harness-crash", "the program built from the generated server died: %v", err)
		return
	}
	o.Evals = 3
	o.Class("flatten:" + c.Flatten)
	o.Class(fmt.Sprintf("yaml-input:%v", c.YAML))
	hostile := strings.ContainsAny(string(c.Spec), "`") || strings.Contains(string(c.Spec), `\u0000`) || strings.Contains(string(c.Spec), `\\`)
	nested := strings.Contains(string(c.Spec), `"allOf"`) || strings.Contains(string(c.Spec), `"properties":{`)
	if hostile || nested {
		o.NT(fmt.Sprintf("%x|%s|%v", hash(c.Spec), c.Flatten, c.YAML))
	}
	o.Sample = map[string]any{"flatten": c.Flatten, "yaml": c.YAML, "bytes": len(c.Spec), "hostile_text": hostile}
	info := resps[0].Info
	var embedded, flat, served any
	if err := json.Unmarshal([]byte(fmt.Sprint(info["swagger_json"])), &embedded); err != nil {
		o.Fail("C10|embedded-original-not-json", "restapi.SwaggerJSON is not JSON: %v", err)
		return
	}
	if err := json.Unmarshal([]byte(fmt.Sprint(info["flat_swagger_json"])), &flat); err != nil {
		o.Fail("C10|embedded-flat-not-json", "restapi.FlatSwaggerJSON is not JSON: %v", err)
		return
	}
	if d := firstDiff(any(input), embedded, "$"); d != "" {
		cls := diffClass(d)
		if c.Flatten == "expand" && !strings.Contains(cls, "-lost") {
			cls = "document-rewritten-by-expansion"
		}
		o.Fail("C10|original-differs|"+cls, "the original document embedded in the server differs from the input (input vs embedded): %s", d)
	}
	if resps[1].Status == 404 && basePath != "" && resps[2].Status == 200 {
		// served at /swagger.json (the property's wording) rather than below the base path
		o.Class("swagger.json-served-at-root-not-under-basePath")
		resps[1] = resps[2]
	}
	if resps[1].Status != 200 {
		o.Fail(fmt.Sprintf("C10|swagger.json-status-%d", resps[1].Status), "GET %s/swagger.json answered %d", basePath, resps[1].Status)
	} else if err := json.Unmarshal([]byte(resps[1].RespBody), &served); err != nil {
		o.Fail("C10|served-not-json", "GET /swagger.json is not JSON: %v", err)
	} else if d := firstDiff(any(input), served, "$"); d != "" {
		cls := diffClass(d)
		if c.Flatten == "expand" && !strings.Contains(cls, "-lost") {
			cls = "document-rewritten-by-expansion"
		}
		o.Fail("C10|served-differs|"+cls, "the document served at /swagger.json differs from the input (input vs served): %s", d)
	}
	// flattened document: same paths / parameters / responses / security / schemas once $refs are resolved
	flatJ, _ := flat.(J)
	for _, key := range []string{"paths", "security", "securityDefinitions", "consumes", "produces", "schemes", "host", "basePath", "info", "tags"} {
		iv, iok := input[key]
		fv, fok := flatJ[key]
		if !iok && !fok {
			continue
		}
		ie := expand(input, iv, nil, 0)
		fe := expand(flatJ, fv, nil, 0)
		if d := firstDiff(ie, fe, "$."+key); d != "" {
			o.Fail("C10|flat-differs|"+diffClass(d), "the flattened embedded document differs from the input after $ref expansion (input vs flattened): %s", d)
			break
		}
	}
	// definitions of the input keep their content
	idefs, _ := input["definitions"].(J)
	fdefs, _ := flatJ["definitions"].(J)
	if c.Flatten != "expand" {
		for _, n := range sortedKeys(idefs) {
			fd, ok := fdefs[n]
			if !ok {
				o.Fail("C10|flat-definition-lost|"+c.Flatten, "definition %s is missing from the flattened embedded document", n)
				continue
			}
			ie := expand(input, idefs[n], []string{"#/definitions/" + n}, 0)
			fe := expand(flatJ, fd, []string{"#/definitions/" + n}, 0)
			if d := firstDiff(ie, fe, "$.definitions."+n); d != "" {
				o.Fail("C10|flat-definition-differs|"+diffClass(d), "definition %s differs in the flattened embedded document after $ref expansion: %s", n, d)
				break
			}
		}
	}
	return
}

func sortedKeys(m J) []string {
	out := make([]string, 0, len(m))
	for k := range m {
		out = append(out, k)
	}
	sort.Strings(out)
	return out
}

func TestProp(t *testing.T) {
	pbt.Main(t, pbt.Prop[Case]{
		ID:   "C10",
		Rule: "specs (definitions with nested anonymous objects, allOf, maps, arrays; operations with every parameter location, shared parameters, bodies, responses with headers, security, tags, extensions) whose free-text positions carry backticks, quotes, backslashes, control characters, newlines, BOM, LS/PS and non-ASCII text, written as JSON or as fully quoted YAML, x {minimal flatten, full flatten, expand}; `swagger generate server` (binary from the tree), compiled with the reflection harness. Oracle: json(restapi.SwaggerJSON) == input tree; GET {basePath}/swagger.json == input tree; restapi.FlatSwaggerJSON after full local $ref expansion (own expander, cycle-marking) has the same paths, parameters, responses, security, metadata and - for minimal/full flatten - the same content for every input definition as the expanded input; definitions added by flattening are accepted; x-go-* keys are ignored. Non-trivial: spec with hostile text or nested anonymous schemas; distinct by spec hash x mode.",
		Assumptions: []string{
			"the YAML rendering double-quotes every string, so any conformant YAML parser yields the same tree as the JSON rendering",
			"names of definitions lifted by the flattener are not compared (references are expanded before comparison)",
		},
		Gen:   gen,
		Check: check,
	})
}
