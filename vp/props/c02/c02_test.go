package c02

import (
	"encoding/json"
	"fmt"
	"os"
	"regexp"
	"sort"
	"strings"
	"testing"
	"time"

	"github.com/go-openapi/spec"
	"github.com/go-openapi/strfmt"
	"github.com/go-openapi/validate"
	"pgregory.net/rapid"

	"verif/internal/pbt"
	"verif/internal/refmodel"
	"verif/internal/specgen"
	"verif/internal/swg"
	"verif/internal/work"
)

type J = specgen.J

type Inst struct {
	Def   string          `json:"def"`
	Doc   json.RawMessage `json:"doc"`
	Class string          `json:"class"`
}

type Case struct {
	Spec  json.RawMessage `json:"spec"`
	Insts []Inst          `json:"insts"`
}

func gen(t *rapid.T) Case {
	doc := specgen.ModelSpec(t, specgen.ModelOpts{Name: specgen.PlainName, Composite: true})
	if rapid.IntRange(0, 2).Draw(t, "nparrays") == 0 {
		addNamedPrimitiveArrays(t, doc)
	}
	c := Case{Spec: specgen.JSONBytes(doc)}
	defs, _ := doc["definitions"].(J)
	names := make([]string, 0, len(defs))
	for n := range defs {
		names = append(names, n)
	}
	sort.Strings(names)
	per := pbt.LoadEnv("C02").N(30, 90)
	for _, n := range names {
		s, _ := defs[n].(J)
		// stratified: a few valid documents, then every single-position boundary
		// mutation of them in turn (each constraint x position is visited), capped
		count := 0
		for b := 0; b < 3 && count < per; b++ {
			l := fmt.Sprintf("%s_b%d", n, b)
			v, ok := specgen.Valid(t, l, doc, s, 0)
			if !ok {
				continue
			}
			c.Insts = append(c.Insts, Inst{Def: n, Doc: specgen.JSONBytes(v), Class: "valid-by-construction"})
			count++
			muts := specgen.AllMutations(doc, s, v)
			if len(muts) == 0 {
				continue
			}
			budget := (per - count) / (3 - b)
			start := rapid.IntRange(0, len(muts)-1).Draw(t, l+"_start")
			step := 1
			if len(muts) > budget && budget > 0 {
				step = len(muts)/budget + 1
			}
			for k := 0; k < len(muts) && count < per && k/step < budget; k += step {
				m := muts[(start+k)%len(muts)]
				c.Insts = append(c.Insts, Inst{Def: n, Doc: specgen.JSONBytes(m.Doc), Class: m.Class})
				count++
			}
		}
	}
	return c
}

// addNamedPrimitiveArrays adds named primitive definitions whose constraints exclude the zero value of their type and
// arrays referring to them from items (top level, property, nested array, required or not): a zero-valued item is
// invalid and must be reported like any other (the zero-value tolerance of schemas.md is about properties only).
func addNamedPrimitiveArrays(t *rapid.T, doc J) {
	defs, _ := doc["definitions"].(J)
	if defs == nil || defs["Npholder"] != nil {
		return
	}
	prims := []J{
		{"type": "string", "minLength": 1 + rapid.IntRange(0, 2).Draw(t, "np_minlen"), "maxLength": 6},
		{"type": "integer", "minimum": 1 + rapid.IntRange(0, 3).Draw(t, "np_min"), "maximum": 20},
		{"type": "string", "enum": []any{"red", "green"}},
		{"type": "number", "minimum": 0, "exclusiveMinimum": true},
		{"type": "integer", "enum": []any{3, 5}},
		{"type": "string", "pattern": "^[a-z]+$"},
	}
	var names []string
	for i, p := range prims {
		if rapid.IntRange(0, 1).Draw(t, fmt.Sprintf("np_has%d", i)) == 0 {
			continue
		}
		n := fmt.Sprintf("Nprim%d", i)
		if defs[n] != nil {
			continue
		}
		defs[n] = p
		names = append(names, n)
	}
	if len(names) == 0 {
		defs["Nprim0"] = prims[0]
		names = []string{"Nprim0"}
	}
	props := J{}
	var req []any
	for i, n := range names {
		ref := J{"$ref": "#/definitions/" + n}
		if defs["Nparr"+n] == nil {
			defs["Nparr"+n] = J{"type": "array", "items": ref}
		}
		pn := fmt.Sprintf("list%d", i)
		switch rapid.IntRange(0, 2).Draw(t, fmt.Sprintf("np_shape%d", i)) {
		case 0:
			props[pn] = J{"type": "array", "items": ref}
		case 1:
			props[pn] = J{"type": "array", "items": J{"type": "array", "items": ref}}
		default:
			props[pn] = J{"$ref": "#/definitions/Nparr" + n}
		}
		if rapid.Bool().Draw(t, fmt.Sprintf("np_req%d", i)) {
			req = append(req, pn)
		}
	}
	h := J{"type": "object", "properties": props}
	if len(req) > 0 {
		h["required"] = req
	}
	defs["Npholder"] = h
}

var reNum = regexp.MustCompile(`-?[0-9]+(\.[0-9]+)?`)
var reQuoted = regexp.MustCompile(`"[^"]*"|'[^']*'|\[[^\]]*\]`)

// errClass abstracts a generated validation / decode error message.
func errClass(msg string) string {
	m := reQuoted.ReplaceAllString(msg, "_")
	m = reNum.ReplaceAllString(m, "N")
	m = regexp.MustCompile(`\*[A-Za-z0-9_.]+`).ReplaceAllString(m, "*T")
	m = strings.ReplaceAll(m, "validation failure list:\n", "")
	if i := strings.Index(m, "\n"); i >= 0 {
		m = m[:i]
	}
	m = strings.TrimSpace(m)
	// drop the leading field path
	if i := strings.Index(m, " in body "); i >= 0 {
		m = m[i+1:]
	}
	if len(m) > 70 {
		m = m[:70]
	}
	return m
}

// posClass abstracts the path of the first reference violation ("body.a[0].b: keyword").
func posClass(e string) (keyword, pos string) {
	i := strings.LastIndex(e, ": ")
	if i < 0 {
		return e, "?"
	}
	keyword = e[i+2:]
	p := e[:i]
	var steps []string
	for _, r := range p {
		switch r {
		case '.':
			steps = append(steps, "prop")
		case '[':
			steps = append(steps, "items")
		case '(':
			steps = append(steps, "allOf")
		}
	}
	if len(steps) == 0 {
		return keyword, "top"
	}
	if len(steps) > 3 {
		steps = steps[len(steps)-3:]
	}
	return keyword, strings.Join(steps, ">")
}

type libValidator struct {
	sw    *spec.Swagger
	cache map[string]*validate.SchemaValidator
	slow  map[string]bool
}

func newLib(sw *spec.Swagger) *libValidator {
	return &libValidator{sw: sw, cache: map[string]*validate.SchemaValidator{}, slow: map[string]bool{}}
}

// valid returns the library verdict; ok=false when the library could not build
// its validator for the definition within 20 s ($ref expansion blow-up).
func (l *libValidator) valid(def string, v any) (valid bool, msg string, ok bool) {
	if l.slow[def] {
		return false, "", false
	}
	sv, have := l.cache[def]
	if !have {
		s, found := l.sw.Definitions[def]
		if !found {
			return false, "no such definition", true
		}
		ch := make(chan *validate.SchemaValidator, 1)
		go func() { ch <- validate.NewSchemaValidator(&s, l.sw, "", strfmt.Default) }()
		select {
		case sv = <-ch:
			l.cache[def] = sv
		case <-time.After(20 * time.Second):
			l.slow[def] = true
			return false, "", false
		}
	}
	res := sv.Validate(v)
	if res == nil || res.IsValid() {
		return true, "", true
	}
	return false, res.Errors[0].Error(), true
}

func check(c Case) (o pbt.Outcome) {
	if err := swg.ValidateSpec(c.Spec); err != nil {
		o.Discard = true
		o.Class("discard:invalid-spec")
		if os.Getenv("VERIF_DEBUG") != "" {
			o.Class("why-invalid:" + reNum.ReplaceAllString(reQuoted.ReplaceAllString(err.Error(), "_"), "N"))
			_ = os.WriteFile(fmt.Sprintf("/tmp/c02-invalid-%d.json", len(c.Spec)), []byte(err.Error()+"\n"+string(c.Spec)), 0o644)
		}
		return
	}
	prog := work.BuildModels(c.Spec)
	if !prog.Usable() {
		// generation / compilation failures are property C01's subject
		o.Class("unusable-program:" + prog.Stage)
		o.Discard = true
		return
	}
	// T1: generated models ignore unknown properties (non-strict mode), i.e. they do
	// not enforce `additionalProperties: false`; the reference sees the schema without it.
	origRoot, _ := specgen.Parse(c.Spec)
	root, _ := specgen.Parse(c.Spec)
	eraseAPFalse(root)
	// T3: positions holding a property-less object may or may not be validated:
	// the reference is consulted under both readings and either verdict is accepted.
	relaxed := specgen.CloneJ(root)
	relaxUnvalidatedObjects(relaxed)
	defs, _ := root["definitions"].(J)
	type variant struct {
		root J
		defs J
		lib  *libValidator
	}
	var variants []variant
	for _, r := range []J{root, relaxed} {
		sw, err := swg.Swagger(specgen.JSONBytes(r))
		if err != nil {
			o.Discard = true
			return
		}
		d, _ := r["definitions"].(J)
		variants = append(variants, variant{root: r, defs: d, lib: newLib(sw)})
	}
	var reqs []work.ModelReq
	for _, in := range c.Insts {
		reqs = append(reqs, work.ModelReq{Def: in.Def, Doc: in.Doc})
	}
	resps, err := prog.Exec(reqs)
	if err != nil {
		o.Fail("C02|harness-crash", "the program built from the generated models died: %v", err)
		return
	}
	o.Evals = len(reqs)
	o.Sample = map[string]any{"definitions": len(defs), "instances": len(c.Insts), "first_instance": firstInst(c)}
	for i, in := range c.Insts {
		r := resps[i]
		s, _ := defs[in.Def].(J)
		if r.Unknown {
			o.Class("unspecified:definition-without-own-type")
			continue
		}
		if r.Panic != "" {
			o.Fail("C02|panic|"+errClass(r.Panic), "definition %s: generated code panicked on %s: %s", in.Def, in.Doc, r.Panic)
			continue
		}
		var v any
		if json.Unmarshal(in.Doc, &v) != nil {
			continue
		}
		if refmodel.ContainsNull(v) {
			o.Class("unspecified:explicit-null")
			continue
		}
		genOK := r.DecodeErr == "" && r.ValidateErr == ""
		stripped := v
		// T2: zero values that may be taken for absent
		var q [][]string
		refmodel.ZeroPositions(root, s, stripped, nil, &q, 0)
		if len(q) > 4 {
			o.Class("unspecified:many-zero-positions")
			continue
		}
		verdicts := map[bool]bool{}
		disagree, tooSlow := false, false
		var firstRefErr string
		for _, vr := range variants {
			vs, _ := vr.defs[in.Def].(J)
			for mask := 0; mask < 1<<len(q) && !disagree && !tooSlow; mask++ {
				var drop [][]string
				for b := range q {
					if mask&(1<<b) != 0 {
						drop = append(drop, q[b])
					}
				}
				cand := refmodel.Without(stripped, drop)
				lv, lmsg, okLib := vr.lib.valid(in.Def, cand)
				if !okLib {
					tooSlow = true
					break
				}
				mine := refmodel.Validate(vr.root, vs, cand, "body")
				if lv != (len(mine) == 0) {
					disagree = true
					if os.Getenv("VERIF_DEBUG") != "" {
						o.Class(fmt.Sprintf("why-disagree: lib=%v(%s) mine=%v", lv, errClass(lmsg), mine))
					}
					break
				}
				verdicts[lv] = true
				// a missing required property that declares a default: the reference
				// validator accepts, plain JSON-schema rejects - either is tolerated
				if lv && len(refmodel.ValidateStrict(vr.root, vs, cand, "body")) > 0 {
					verdicts[false] = true
					if firstRefErr == "" {
						firstRefErr = "body: required-with-default absent"
					}
				}
				if !lv && firstRefErr == "" {
					if len(mine) > 0 {
						firstRefErr = mine[0]
					} else {
						firstRefErr = lmsg
					}
				}
			}
		}
		if tooSlow {
			o.Class("unspecified:reference-validator-too-slow")
			continue
		}
		if disagree {
			o.Class("oracle-disagreement")
			continue
		}
		cls := "ref-valid"
		if !verdicts[true] {
			cls = "ref-invalid"
		} else if verdicts[false] {
			cls = "ref-either(zero-tolerance)"
		}
		o.Class(cls)
		mclass := in.Class
		if i := strings.LastIndex(mclass, ">"); i >= 0 {
			mclass = mclass[i+1:]
		}
		o.Class("instance:" + mclass)
		o.NT(in.Def + "|" + shapeOf(s) + "|" + in.Class + "|" + cls)
		if verdicts[genOK] {
			continue
		}
		mut := in.Class
		if i := strings.LastIndex(mut, "+"); i >= 0 {
			mut = mut[i+1:]
		}
		if i := strings.LastIndex(mut, ">"); i >= 0 {
			mut = mut[i+1:]
		}
		if genOK {
			kw, _ := posClass(firstRefErr)
			sig := fmt.Sprintf("C02|gen-accepts-invalid|%s|%s", kw, mut)
			switch {
			case traversesInlineAllOf(root, s, firstRefErr):
				sig = "C02|gen-accepts-invalid|region:property-with-allOf"
			case endsInRefToPrimitive(origRoot, in.Def, firstRefErr):
				sig = "C02|gen-accepts-invalid|region:ref-to-primitive-definition-below-top-level"
				if lastStepIsItem(firstRefErr) {
					// the listed region is map values and properties of nested anonymous objects; array items that
					// refer to a named primitive are validated by the unchanged tree and get a signature of their own
					sig = fmt.Sprintf("C02|gen-accepts-invalid|ref-to-primitive-definition-as-array-item|%s|%s", kw, mut)
				}
			case kw == "format" && (mut == "zero" || strings.HasPrefix(mut, "add-zero-") || mut == "valid-by-construction" || mut == "empty-array"):
				sig = "C02|gen-accepts-invalid|format|empty-string"
			case kw == "format":
				sig = "C02|gen-accepts-invalid|format|" + strings.TrimPrefix(mut, "format:")
			case kw == "required" && underEmptyObject(v, firstRefErr):
				sig = "C02|gen-accepts-invalid|required|inside-empty-object-value"
			}
			o.Fail(sig, "definition %s: generated model accepts a document the reference validator rejects (%s)\n  doc: %s\n  schema: %s", in.Def, firstRefErr, in.Doc, specgen.JSONBytes(s))
		} else {
			msg := r.DecodeErr
			stage := "decode"
			if msg == "" {
				msg, stage = r.ValidateErr, "validate"
			}
			shape := ""
			if cl := closureText(root, s); strings.Contains(msg, "is required") && strings.Contains(cl, `"allOf"`) && strings.Contains(cl, `"additionalProperties"`) {
				shape = "|shape:allOf+additionalProperties"
			}
			if strings.Contains(msg, "is required") && requiredOnEmptyObject(v, msg) {
				shape = "|value:empty-object"
			}
			o.Fail(fmt.Sprintf("C02|gen-rejects-valid|%s|%s%s", stage, errClass(msg), shape), "definition %s: generated model rejects a document valid for the reference validator: %s: %s\n  doc: %s\n  schema: %s", in.Def, stage, msg, in.Doc, specgen.JSONBytes(s))
		}
	}
	return
}

// T3 (schemas.md: "objects with no properties and no additional properties schema
// have no validation at all (e.g. passing an array is not invalid)"): such schema
// positions are read as the empty schema by the reference.
func relaxUnvalidatedObjects(v any) {
	switch x := v.(type) {
	case map[string]any:
		if x["type"] == "object" && x["properties"] == nil && x["allOf"] == nil && x["$ref"] == nil {
			if _, isSchema := x["additionalProperties"].(map[string]any); !isSchema {
				delete(x, "type")
				delete(x, "minProperties")
				delete(x, "maxProperties")
				delete(x, "additionalProperties")
			}
		}
		for _, e := range x {
			relaxUnvalidatedObjects(e)
		}
	case []any:
		for _, e := range x {
			relaxUnvalidatedObjects(e)
		}
	}
}

func eraseAPFalse(v any) {
	switch x := v.(type) {
	case map[string]any:
		if b, ok := x["additionalProperties"].(bool); ok && !b {
			delete(x, "additionalProperties")
		}
		for _, e := range x {
			eraseAPFalse(e)
		}
	case []any:
		for _, e := range x {
			eraseAPFalse(e)
		}
	}
}

var rePathTok = regexp.MustCompile(`\.([^.\[(]+)|\[(\d+)\]|\(allOf (\d+)\)`)

// traversesInlineAllOf walks the schema along a reference error path
// ("body.a[0](allOf 1).b: keyword") and reports whether a schema below the top
// level that carries allOf is crossed (a property / item whose schema has allOf).
func traversesInlineAllOf(root J, s J, errPath string) bool {
	p := errPath
	if i := strings.LastIndex(p, ": "); i >= 0 {
		p = p[:i]
	}
	p = strings.TrimPrefix(p, "body")
	cur := refmodel.Resolve(root, s)
	depth := 0
	for _, m := range rePathTok.FindAllStringSubmatch(p, -1) {
		if depth > 0 && cur["allOf"] != nil {
			return true
		}
		switch {
		case m[1] != "":
			next := findProp(root, cur, m[1], 0)
			if next == nil {
				return false
			}
			cur = refmodel.Resolve(root, next)
			depth++
		case m[2] != "":
			switch it := cur["items"].(type) {
			case J:
				cur = refmodel.Resolve(root, it)
			default:
				return false
			}
			depth++
		case m[3] != "":
			ms, _ := cur["allOf"].([]any)
			idx := 0
			fmt.Sscanf(m[3], "%d", &idx)
			if idx >= len(ms) {
				return false
			}
			mj, _ := ms[idx].(J)
			cur = refmodel.Resolve(root, mj)
		}
	}
	return depth > 0 && cur["allOf"] != nil
}

// lastStepIsItem: the violated position (path before the message) ends in an array index.
func lastStepIsItem(errPath string) bool {
	p := errPath
	if i := strings.LastIndex(p, ": "); i >= 0 {
		p = p[:i]
	}
	ms := rePathTok.FindAllStringSubmatch(strings.TrimPrefix(p, "body"), -1)
	return len(ms) > 0 && ms[len(ms)-1][2] != ""
}

// endsInRefToPrimitive: the violated position is a map value, array item or nested
// property declared as a $ref to a non-object definition (named primitive / array
// type), two or more steps below the definition under test.
func endsInRefToPrimitive(root J, def string, errPath string) bool {
	defs, _ := root["definitions"].(J)
	s, _ := defs[def].(J)
	p := errPath
	if i := strings.LastIndex(p, ": "); i >= 0 {
		p = p[:i]
	}
	p = strings.TrimPrefix(p, "body")
	cur := s
	steps := 0
	viaRefToPrim := false
	for _, m := range rePathTok.FindAllStringSubmatch(p, -1) {
		rs := refmodel.Resolve(root, cur)
		var next J
		switch {
		case m[1] != "":
			next = findProp(root, rs, m[1], 0)
		case m[2] != "":
			next, _ = rs["items"].(J)
		case m[3] != "":
			ms, _ := rs["allOf"].([]any)
			idx := 0
			fmt.Sscanf(m[3], "%d", &idx)
			if idx < len(ms) {
				next, _ = ms[idx].(J)
			}
			steps--
		}
		if next == nil {
			return false
		}
		steps++
		viaRefToPrim = false
		if r, ok := next["$ref"].(string); ok {
			t, _ := defs[strings.TrimPrefix(r, "#/definitions/")].(J)
			if t != nil && t["type"] != "object" && t["properties"] == nil && t["allOf"] == nil {
				viaRefToPrim = true
			}
		}
		cur = next
	}
	return viaRefToPrim && steps >= 1
}

func findProp(root J, s J, name string, depth int) J {
	if depth > 10 {
		return nil
	}
	if props, ok := s["properties"].(J); ok {
		if p, ok := props[name].(J); ok {
			return p
		}
	}
	if ms, ok := s["allOf"].([]any); ok {
		for _, m := range ms {
			if mj, ok := m.(J); ok {
				if p := findProp(root, refmodel.Resolve(root, mj), name, depth+1); p != nil {
					return p
				}
			}
		}
	}
	if ap, ok := s["additionalProperties"].(J); ok {
		return ap
	}
	return nil
}

// underEmptyObject: the required property reported missing sits in an object value
// that is `{}` below the top level (the zero value of a non-pointer struct field,
// which generated code takes for "absent").
func underEmptyObject(doc any, errPath string) bool {
	p := errPath
	if i := strings.LastIndex(p, ": "); i >= 0 {
		p = p[:i]
	}
	p = strings.TrimPrefix(p, "body")
	toks := rePathTok.FindAllStringSubmatch(p, -1)
	if len(toks) < 2 {
		return false
	}
	cur := doc
	for _, m := range toks[:len(toks)-1] {
		switch {
		case m[1] != "":
			obj, ok := cur.(map[string]any)
			if !ok {
				return false
			}
			cur = obj[m[1]]
		case m[2] != "":
			arr, ok := cur.([]any)
			idx := 0
			fmt.Sscanf(m[2], "%d", &idx)
			if !ok || idx >= len(arr) {
				return false
			}
			cur = arr[idx]
		}
	}
	obj, ok := cur.(map[string]any)
	return ok && len(obj) == 0
}

// requiredOnEmptyObject: the generated "X in body is required" message names a
// position of the document that holds `{}`.
func requiredOnEmptyObject(doc any, msg string) bool {
	for _, line := range strings.Split(msg, "\n") {
		i := strings.Index(line, " in body is required")
		if i < 0 {
			continue
		}
		steps := strings.Split(strings.TrimSpace(line[:i]), ".")
		// generated messages sometimes repeat leading path components: try every suffix
		for start := 0; start < len(steps); start++ {
			if v, ok := walkDoc(doc, steps[start:]); ok {
				if obj, isObj := v.(map[string]any); isObj {
					// empty, or holding only the undeclared member the mutator adds (dropped on decode)
					_, unk := obj["zzUnknownProp"]
					if len(obj) == 0 || (len(obj) == 1 && unk) {
						return true
					}
				}
				break
			}
		}
	}
	return false
}

func walkDoc(doc any, steps []string) (any, bool) {
	cur := doc
	for _, step := range steps {
		if arr, isArr := cur.([]any); isArr {
			idx := -1
			fmt.Sscanf(step, "%d", &idx)
			if idx < 0 || idx >= len(arr) {
				return nil, false
			}
			cur = arr[idx]
			continue
		}
		obj, isObj := cur.(map[string]any)
		if !isObj {
			return nil, false
		}
		next, has := obj[step]
		if !has {
			return nil, false
		}
		cur = next
	}
	return cur, true
}

// closureText is the JSON text of a schema and of every definition it references.
func closureText(root J, s J) string {
	defs, _ := root["definitions"].(J)
	seen := map[string]bool{}
	var sb strings.Builder
	var visit func(txt string)
	reRef := regexp.MustCompile(`"#/definitions/([^"]+)"`)
	visit = func(txt string) {
		sb.WriteString(txt)
		for _, m := range reRef.FindAllStringSubmatch(txt, -1) {
			if !seen[m[1]] {
				seen[m[1]] = true
				if d, ok := defs[m[1]].(J); ok {
					visit(string(specgen.JSONBytes(d)))
				}
			}
		}
	}
	visit(string(specgen.JSONBytes(s)))
	return sb.String()
}

func firstInst(c Case) any {
	if len(c.Insts) == 0 {
		return nil
	}
	return map[string]any{"def": c.Insts[0].Def, "class": c.Insts[0].Class, "doc": string(c.Insts[0].Doc)}
}

// shapeOf summarises the keywords a definition uses (for the distinct count).
func shapeOf(s J) string {
	b := string(specgen.JSONBytes(s))
	var f []string
	for _, k := range []string{"allOf", "additionalProperties", "$ref", "items", "enum", "minimum", "maximum", "multipleOf", "minLength", "maxLength", "pattern", "format", "minItems", "maxItems", "uniqueItems", "required", "readOnly", "x-nullable", "default", "minProperties"} {
		if strings.Contains(b, `"`+k+`"`) {
			f = append(f, k)
		}
	}
	return strings.Join(f, ",")
}

func TestProp(t *testing.T) {
	pbt.Main(t, pbt.Prop[Case]{
		ID:   "C02",
		Rule: "model programs: specs of 4-9 definitions from the documented schema fragment (every primitive with every strfmt format, all validation keywords, arrays, nested arrays, maps, nested anonymous objects, allOf of refs and inline members, own properties next to allOf, $ref chains and recursion, x-nullable, readOnly, default) are generated with `swagger generate model` (binary built from the tree) and compiled; per definition 14 (quick) / 40 (thorough) JSON instances: valid by construction, then 60% mutated once or twice at a random position (boundary of every constraint, zero value, null, type confusion, dropped/added properties, duplicates). Oracle: json.Unmarshal + Validate(strfmt.Default) of the generated type accepts <=> go-openapi/validate's schema validator accepts, modulo the documented tolerances. Non-trivial: instance evaluated by both reference validators in agreement; distinct by (definition, schema keyword set, instance class, reference verdict).",
		Assumptions: []string{
			"reference verdict = go-openapi/validate schema validator, cross-checked by a self-written validator (cases where the two disagree assert nothing and are counted)",
			"T1 the reference validators see the schema without `additionalProperties: false` (unknown properties ignored, non-strict mode); T2 the generated verdict may match the reference verdict of the document with any subset of the qualifying zero-valued properties removed (<=4 such positions, else unspecified); documents containing an explicit null, untyped/property-less objects and tuples are unspecified or not generated",
			"programs that do not generate or compile are property C01's subject and are counted unusable here",
		},
		Gen:   gen,
		Check: check,
	})
}
