// The swagger binary is built from a module that declares go 1.21, where go/types does not produce
// types.Alias nodes; the in-process scanner is run under the same setting.
//
//go:debug gotypesalias=0
package c16

import (
	"encoding/json"
	"fmt"
	"os"
	"path/filepath"
	"regexp"
	"sort"
	"strings"
	"testing"
	"time"

	"github.com/go-openapi/spec"
	"github.com/go-openapi/strfmt"
	"github.com/go-openapi/validate"
	"github.com/go-swagger/go-swagger/codescan"
	"pgregory.net/rapid"

	"verif/internal/pbt"
	"verif/internal/refmodel"
	"verif/internal/specgen"
	"verif/internal/work"
)

type J = specgen.J
type A = specgen.A

// FieldInfo describes one JSON-visible top-level field of a model (for attribution).
type FieldInfo struct {
	JSONName string `json:"json_name"`
	Class    string `json:"class"` // Go type with names erased, plus tag options
}

type ModelInfo struct {
	Name   string      `json:"name"`
	Class  string      `json:"class"` // struct | named:<underlying class>
	Fields []FieldInfo `json:"fields,omitempty"`
}

type Case struct {
	Source string      `json:"source"` // models/models.go
	Models []ModelInfo `json:"models"`
}

func pick[T any](t *rapid.T, label string, xs []T) T { return specgen.Pick(t, label, xs) }
func chance(t *rapid.T, label string, pct int) bool  { return specgen.Uniform(t, label, 100) < pct }

var basics = []string{"bool", "string", "string", "int", "int8", "int16", "int32", "int64", "uint", "uint8", "uint16", "uint32", "uint64", "float32", "float64", "byte", "rune"}

type genCtx struct {
	t       *rapid.T
	structs []string          // struct models declared so far (usable by value)
	all     []string          // all struct models (usable behind pointer / slice / map)
	named   map[string]string // named non-struct types -> underlying class
	namedL  []string
	plain   []string // unannotated struct types
	seq     int
}

// typeExpr returns (Go type expression, class).
func (g *genCtx) typeExpr(label string, depth int, indirect bool) (string, string) {
	kinds := []string{"basic", "basic", "basic", "basic", "time", "iface", "bytes"}
	if depth < 3 {
		kinds = append(kinds, "ptr", "slice", "slice", "array", "map", "map", "anon")
	}
	if len(g.namedL) > 0 {
		kinds = append(kinds, "named", "named")
	}
	if len(g.structs) > 0 || (indirect && len(g.all) > 0) {
		kinds = append(kinds, "model", "model", "model")
	}
	if len(g.plain) > 0 {
		kinds = append(kinds, "plain")
	}
	switch pick(g.t, label+"_k", kinds) {
	case "basic":
		b := pick(g.t, label+"_b", basics)
		return b, b
	case "time":
		return "time.Time", "time.Time"
	case "iface":
		return "interface{}", "interface{}"
	case "bytes":
		return "[]byte", "[]byte"
	case "ptr":
		e, c := g.typeExpr(label+"_p", depth+1, true)
		if strings.HasPrefix(e, "*") || e == "interface{}" {
			return e, c
		}
		return "*" + e, "*" + c
	case "slice":
		e, c := g.typeExpr(label+"_s", depth+1, true)
		return "[]" + e, "[]" + c
	case "array":
		e, c := g.typeExpr(label+"_a", depth+1, false)
		n := pick(g.t, label+"_n", []int{1, 2, 3})
		return fmt.Sprintf("[%d]%s", n, e), "[N]" + c
	case "map":
		e, c := g.typeExpr(label+"_m", depth+1, true)
		return "map[string]" + e, "map[string]" + c
	case "named":
		n := pick(g.t, label+"_named", g.namedL)
		return n, "named(" + g.named[n] + ")"
	case "plain":
		return pick(g.t, label+"_plain", g.plain), "unannotated-struct"
	case "model":
		pool := g.structs
		if indirect {
			pool = g.all
		}
		return pick(g.t, label+"_model", pool), "model"
	default: // anon
		nf := rapid.IntRange(1, 3).Draw(g.t, label+"_nf")
		var fs, cs []string
		for i := 0; i < nf; i++ {
			g.seq++
			e, c := g.typeExpr(fmt.Sprintf("%s_f%d", label, i), depth+2, indirect)
			name := fmt.Sprintf("Inner%d", g.seq)
			fs = append(fs, fmt.Sprintf("%s %s `json:\"inner%d\"`", name, e, g.seq))
			cs = append(cs, c)
		}
		return "struct{ " + strings.Join(fs, "; ") + " }", "struct{" + strings.Join(cs, ";") + "}"
	}
}

func stringable(class string) bool {
	switch class {
	case "string", "bool", "int", "int8", "int16", "int32", "int64", "uint", "uint8", "uint16", "uint32", "uint64", "float32", "float64", "byte", "rune":
		return true
	}
	return false
}

func gen(t *rapid.T) Case {
	g := &genCtx{t: t, named: map[string]string{}}
	var sb strings.Builder
	sb.WriteString("// Package models holds the scanned model types.\npackage models\n\nimport \"time\"\n\nvar _ = time.Now\n\n")
	var c Case
	// named non-struct types
	nn := rapid.IntRange(0, 3).Draw(t, "nnamed")
	for i := 0; i < nn; i++ {
		l := fmt.Sprintf("named%d", i)
		name := fmt.Sprintf("Named%d", i)
		under := pick(t, l+"_u", []string{"string", "int64", "float64", "bool", "uint8", "[]string", "[]int32", "map[string]string", "map[string]int", "time.Time", "[]byte", "[2]int", "*string"})
		annotated := chance(t, l+"_ann", 60)
		if annotated {
			fmt.Fprintf(&sb, "// %s is a named type.\n//\n// swagger:model\n", name)
		} else {
			fmt.Fprintf(&sb, "// %s is a named type.\n", name)
		}
		alias := ""
		if chance(t, l+"_alias", 15) {
			alias = "= "
		}
		fmt.Fprintf(&sb, "type %s %s%s\n\n", name, alias, under)
		cls := under
		if alias != "" {
			cls = "alias=" + under
		}
		g.named[name] = cls
		g.namedL = append(g.namedL, name)
		if annotated {
			c.Models = append(c.Models, ModelInfo{Name: name, Class: "named:" + cls})
		}
	}
	// a named type defined on another named type
	if len(g.namedL) > 0 && chance(t, "namednamed", 35) {
		base := pick(t, "namednamed_base", g.namedL)
		if !strings.HasPrefix(g.named[base], "alias=") {
			fmt.Fprintf(&sb, "// NamedOnNamed is a named type defined on a named type.\ntype NamedOnNamed %s\n\n", base)
			g.named["NamedOnNamed"] = "named(" + g.named[base] + ")"
			g.namedL = append(g.namedL, "NamedOnNamed")
		}
	}
	// struct types that carry no annotation but are used by models
	np := rapid.IntRange(0, 2).Draw(t, "nplain")
	for i := 0; i < np; i++ {
		name := fmt.Sprintf("Plain%d", i)
		fmt.Fprintf(&sb, "// %s is a struct without annotation.\ntype %s struct {\n\t// A is a field.\n\tA int32 `json:\"a\"`\n\t// B is a field.\n\tB []string `json:\"b,omitempty\"`\n\t// C is a field.\n\tC *float64\n}\n\n", name, name)
		g.plain = append(g.plain, name)
	}
	ns := rapid.IntRange(2, 5).Draw(t, "nstructs")
	for i := 0; i < ns; i++ {
		g.all = append(g.all, fmt.Sprintf("Model%d", i))
	}
	for i := 0; i < ns; i++ {
		l := fmt.Sprintf("m%d", i)
		name := g.all[i]
		mi := ModelInfo{Name: name, Class: "struct"}
		fmt.Fprintf(&sb, "// %s is a model.\n//\n// swagger:model\ntype %s struct {\n", name, name)
		// embedded struct
		if len(g.structs) > 0 && chance(t, l+"_emb", 35) {
			base := pick(t, l+"_embbase", g.structs)
			switch pick(t, l+"_embkind", []string{"value", "pointer", "tagged"}) {
			case "value":
				fmt.Fprintf(&sb, "\t%s\n", base)
				mi.Fields = append(mi.Fields, FieldInfo{JSONName: "(embedded)", Class: "embedded"})
			case "pointer":
				fmt.Fprintf(&sb, "\t*%s\n", base)
				mi.Fields = append(mi.Fields, FieldInfo{JSONName: "(embedded)", Class: "embedded-pointer"})
			default:
				g.seq++
				jn := fmt.Sprintf("base%d", g.seq)
				fmt.Fprintf(&sb, "\t%s `json:\"%s\"`\n", base, jn)
				mi.Fields = append(mi.Fields, FieldInfo{JSONName: jn, Class: "embedded-tagged"})
			}
		}
		nf := rapid.IntRange(1, 6).Draw(t, l+"_nf")
		for k := 0; k < nf; k++ {
			g.seq++
			fl := fmt.Sprintf("%s_f%d", l, k)
			e, cls := g.typeExpr(fl, 0, false)
			field := fmt.Sprintf("F%d", g.seq)
			tagKind := pick(t, fl+"_tag", []string{"none", "none", "rename", "rename", "omitempty", "omitempty-only", "dash", "string", "string-only", "string-omitempty", "unexported", "ignore"})
			jn := field
			tag := ""
			switch tagKind {
			case "rename":
				jn = fmt.Sprintf("f_%d", g.seq)
				tag = fmt.Sprintf("`json:\"%s\"`", jn)
			case "omitempty":
				jn = fmt.Sprintf("f%dOpt", g.seq)
				tag = fmt.Sprintf("`json:\"%s,omitempty\"`", jn)
				cls += ",omitempty"
			case "omitempty-only":
				tag = "`json:\",omitempty\"`"
				cls += ",omitempty"
			case "dash":
				tag = "`json:\"-\"`"
				jn = ""
			case "string":
				if stringable(cls) {
					jn = fmt.Sprintf("f%dStr", g.seq)
					tag = fmt.Sprintf("`json:\"%s,string\"`", jn)
					cls += ",string"
				}
			case "string-only":
				if stringable(cls) {
					tag = "`json:\",string\"`"
					cls += ",string"
				}
			case "string-omitempty":
				if stringable(cls) {
					jn = fmt.Sprintf("f%dStrOpt", g.seq)
					tag = fmt.Sprintf("`json:\"%s,omitempty,string\"`", jn)
					cls += ",string,omitempty"
				}
			case "unexported":
				field = fmt.Sprintf("f%d", g.seq)
				jn = ""
			case "ignore":
				fmt.Fprintf(&sb, "\t// swagger:ignore\n")
				cls += ",swagger:ignore"
			}
			fmt.Fprintf(&sb, "\t// %s is a field.\n\t%s %s %s\n", field, field, e, tag)
			if jn != "" {
				mi.Fields = append(mi.Fields, FieldInfo{JSONName: jn, Class: cls})
			}
		}
		sb.WriteString("}\n\n")
		g.structs = append(g.structs, name)
		c.Models = append(c.Models, mi)
	}
	c.Source = sb.String()
	return c
}

// ---------------------------------------------------------------------------

const harnessMain = `// Code generated by the verification harness. DO NOT EDIT.
package main

import (
	"bufio"
	"encoding/json"
	"fmt"
	"os"
	"reflect"
	"time"

	"verifscan/models"
)

var registry = map[string]reflect.Type{
REGISTRY}

type req struct {
	Op      string          ` + "`json:\"op\"`" + `
	Type    string          ` + "`json:\"type\"`" + `
	Variant int             ` + "`json:\"variant\"`" + `
	Doc     json.RawMessage ` + "`json:\"doc\"`" + `
}

type resp struct {
	Out   string ` + "`json:\"out,omitempty\"`" + `
	Err   string ` + "`json:\"err,omitempty\"`" + `
	Panic string ` + "`json:\"panic,omitempty\"`" + `
}

var timeType = reflect.TypeOf(time.Time{})

// fill sets v to a non-zero value (variant 1: everything; variant 2: every other field; variant 0: zero value).
func fill(v reflect.Value, variant, depth int, n *int) {
	*n++
	if variant == 0 {
		return
	}
	if v.Type() == timeType {
		v.Set(reflect.ValueOf(time.Date(2020, 2, 29, 12, 34, 56, 0, time.UTC)))
		return
	}
	switch v.Kind() {
	case reflect.Bool:
		v.SetBool(true)
	case reflect.Int, reflect.Int8, reflect.Int16, reflect.Int32, reflect.Int64:
		v.SetInt(int64(1 + *n%100))
	case reflect.Uint, reflect.Uint8, reflect.Uint16, reflect.Uint32, reflect.Uint64:
		v.SetUint(uint64(1 + *n%100))
	case reflect.Float32, reflect.Float64:
		v.SetFloat(1.5 + float64(*n%7))
	case reflect.String:
		v.SetString(fmt.Sprintf("s%d", *n))
	case reflect.Ptr:
		if depth > 5 {
			return
		}
		v.Set(reflect.New(v.Type().Elem()))
		fill(v.Elem(), variant, depth+1, n)
	case reflect.Slice:
		if depth > 5 {
			return
		}
		s := reflect.MakeSlice(v.Type(), 2, 2)
		fill(s.Index(0), variant, depth+1, n)
		fill(s.Index(1), variant, depth+1, n)
		v.Set(s)
	case reflect.Array:
		for i := 0; i < v.Len(); i++ {
			fill(v.Index(i), variant, depth+1, n)
		}
	case reflect.Map:
		if depth > 5 {
			return
		}
		m := reflect.MakeMap(v.Type())
		e := reflect.New(v.Type().Elem()).Elem()
		fill(e, variant, depth+1, n)
		m.SetMapIndex(reflect.ValueOf("k1").Convert(v.Type().Key()), e)
		v.Set(m)
	case reflect.Struct:
		for i := 0; i < v.NumField(); i++ {
			f := v.Field(i)
			if !f.CanSet() {
				continue
			}
			if variant == 2 && i%2 == 1 {
				continue
			}
			fill(f, variant, depth+1, n)
		}
	case reflect.Interface:
		if variant == 1 {
			v.Set(reflect.ValueOf("any"))
		} else {
			v.Set(reflect.ValueOf(map[string]interface{}{"k": 1.0}))
		}
	}
}

func handle(r req) (out resp) {
	defer func() {
		if rc := recover(); rc != nil {
			out.Panic = fmt.Sprint(rc)
		}
	}()
	t, ok := registry[r.Type]
	if !ok {
		out.Err = "unknown type"
		return
	}
	p := reflect.New(t)
	switch r.Op {
	case "marshal":
		n := 0
		fill(p.Elem(), r.Variant, 0, &n)
		b, err := json.Marshal(p.Interface())
		if err != nil {
			out.Err = err.Error()
			return
		}
		out.Out = string(b)
	case "unmarshal":
		if err := json.Unmarshal(r.Doc, p.Interface()); err != nil {
			out.Err = err.Error()
		}
	}
	return
}

func main() {
	_ = models.Keep
	sc := bufio.NewScanner(os.Stdin)
	sc.Buffer(make([]byte, 1<<20), 64<<20)
	w := bufio.NewWriter(os.Stdout)
	defer w.Flush()
	enc := json.NewEncoder(w)
	for sc.Scan() {
		var r req
		if err := json.Unmarshal(sc.Bytes(), &r); err != nil {
			_ = enc.Encode(resp{Err: "bad request: " + err.Error()})
			continue
		}
		_ = enc.Encode(handle(r))
	}
}
`

type hreq struct {
	Op      string          `json:"op"`
	Type    string          `json:"type"`
	Variant int             `json:"variant"`
	Doc     json.RawMessage `json:"doc,omitempty"`
}

type hresp struct {
	Out   string `json:"out,omitempty"`
	Err   string `json:"err,omitempty"`
	Panic string `json:"panic,omitempty"`
}

func runHarness(dir, bin string, reqs []hreq) ([]hresp, error) {
	var in strings.Builder
	for _, r := range reqs {
		b, _ := json.Marshal(r)
		in.Write(b)
		in.WriteByte('\n')
	}
	stdout, stderr, res := work.RunSplit(dir, 2*time.Minute, []byte(in.String()), bin)
	if res.Err != nil {
		return nil, fmt.Errorf("%v: %s", res.Err, tailS(stderr, 800))
	}
	var out []hresp
	for _, l := range strings.Split(strings.TrimSpace(stdout), "\n") {
		var r hresp
		if err := json.Unmarshal([]byte(l), &r); err != nil {
			return nil, fmt.Errorf("bad harness line %q", l)
		}
		out = append(out, r)
	}
	if len(out) != len(reqs) {
		return nil, fmt.Errorf("harness answered %d of %d", len(out), len(reqs))
	}
	return out, nil
}

func tailS(s string, n int) string {
	if len(s) > n {
		return "…" + s[len(s)-n:]
	}
	return s
}

// canon builds a document the schema accepts (deterministic): full = every property.
func canon(root J, s J, full bool, depth int) any {
	s = refmodel.Resolve(root, s)
	if depth > 6 {
		return nil
	}
	if ao, ok := s["allOf"].(A); ok {
		out := J{}
		for _, m := range ao {
			if mj, ok := m.(J); ok {
				if v, ok := canon(root, mj, full, depth+1).(J); ok {
					for k, x := range v {
						out[k] = x
					}
				}
			}
		}
		if props, ok := s["properties"].(J); ok {
			for k, p := range props {
				if pj, ok := p.(J); ok && full {
					out[k] = canon(root, pj, full, depth+1)
				}
			}
		}
		return out
	}
	if e, ok := s["enum"].(A); ok && len(e) > 0 {
		return e[0]
	}
	ty, _ := s["type"].(string)
	if ty == "" {
		if _, ok := s["properties"]; ok {
			ty = "object"
		} else if _, ok := s["additionalProperties"]; ok {
			ty = "object"
		} else if _, ok := s["items"]; ok {
			ty = "array"
		}
	}
	switch ty {
	case "string":
		switch s["format"] {
		case "date-time":
			return "2020-02-29T12:34:56Z"
		case "date":
			return "2020-02-29"
		case "byte":
			return "aGk="
		case "uuid":
			return "a8098c1a-f86e-11da-bd1a-00112444be1e"
		case "int", "int8", "int16", "int32", "int64", "uint", "uint8", "uint16", "uint32", "uint64":
			return "7" // a number carried in a string (json ",string" option)
		case "float", "double":
			return "2.5"
		case "bool", "boolean":
			return "true"
		}
		return "s"
	case "integer":
		return 7
	case "number":
		return 2.5
	case "boolean":
		return true
	case "array":
		it, _ := s["items"].(J)
		n := 1
		if mi, ok := s["minItems"].(float64); ok && int(mi) > n {
			n = int(mi)
		}
		if mx, ok := s["maxItems"].(float64); ok && int(mx) < n {
			n = int(mx)
		}
		out := A{}
		for i := 0; i < n; i++ {
			if it != nil {
				out = append(out, canon(root, it, full, depth+1))
			} else {
				out = append(out, "x")
			}
		}
		return out
	case "object":
		out := J{}
		req := map[string]bool{}
		for _, r := range asList(s["required"]) {
			if rs, ok := r.(string); ok {
				req[rs] = true
			}
		}
		if props, ok := s["properties"].(J); ok {
			for k, p := range props {
				if pj, ok := p.(J); ok && (full || req[k]) {
					out[k] = canon(root, pj, full, depth+1)
				}
			}
		}
		if ap, ok := s["additionalProperties"].(J); ok && full {
			out["extraKey"] = canon(root, ap, full, depth+1)
		}
		return out
	}
	// no type: anything goes
	return "any"
}

func asList(v any) A { l, _ := v.(A); return l }

var reGoErrNums = regexp.MustCompile(`\d+`)
var reQuoted = regexp.MustCompile("\"[^\"]*\"|`[^`]*`")

func errClass(s string) string {
	s = regexp.MustCompile(`Go struct field \S+`).ReplaceAllString(s, "Go struct field _")
	s = regexp.MustCompile(`\bu?int\d*\b`).ReplaceAllString(s, "integer-kind")
	s = reQuoted.ReplaceAllString(s, "_")
	s = reGoErrNums.ReplaceAllString(s, "N")
	s = regexp.MustCompile(`Model\w+|Named\w+|F\d+|Inner\d+|f_N|fN\w*|innerN|baseN`).ReplaceAllString(s, "X")
	if len(s) > 90 {
		s = s[:90]
	}
	return s
}

// fieldClass finds the class of the top-level property named in a validation error path / Go error.
func fieldClass(m ModelInfo, text string) string {
	best := ""
	for _, f := range m.Fields {
		if f.JSONName != "" && f.JSONName != "(embedded)" && strings.Contains(text, f.JSONName) && len(f.JSONName) > len(best) {
			best = f.JSONName
		}
	}
	for _, f := range m.Fields {
		if f.JSONName == best && best != "" {
			return f.Class
		}
	}
	for _, f := range m.Fields {
		if strings.HasPrefix(f.Class, "embedded") {
			return "(via " + f.Class + " or unknown)"
		}
	}
	return "unknown"
}

func check(c Case) (o pbt.Outcome) {
	dir := filepath.Join(work.Scratch(), fmt.Sprintf("c16-%x", pbtHash(c.Source)), "verifscan")
	_ = os.RemoveAll(filepath.Dir(dir))
	defer os.RemoveAll(filepath.Dir(dir))
	_ = os.MkdirAll(filepath.Join(dir, "models"), 0o755)
	_ = os.MkdirAll(filepath.Join(dir, "cmd", "harness"), 0o755)
	_ = os.WriteFile(filepath.Join(dir, "go.mod"), []byte("module verifscan\n\ngo 1.21\n"), 0o644)
	_ = os.WriteFile(filepath.Join(dir, "models", "models.go"), []byte(c.Source+"\n// Keep keeps the import.\nvar Keep = 0\n"), 0o644)
	var reg strings.Builder
	for _, m := range c.Models {
		fmt.Fprintf(&reg, "\t%q: reflect.TypeOf((*models.%s)(nil)).Elem(),\n", m.Name, m.Name)
		o.Class("model:" + m.Class)
		for _, f := range m.Fields {
			o.Class("field:" + f.Class)
		}
	}
	_ = os.WriteFile(filepath.Join(dir, "cmd", "harness", "main.go"), []byte(strings.Replace(harnessMain, "REGISTRY", reg.String(), 1)), 0o644)
	bin := filepath.Join(dir, "harness.bin")
	if b := work.GoBuild(dir, bin, "./cmd/harness"); !b.OK() {
		// the generated program must be well-typed: a generator problem, not a finding
		o.Discard = true
		o.Class("discard:program-does-not-compile")
		if os.Getenv("VERIF_C16_DEBUG") != "" {
			fmt.Fprintf(os.Stderr, "BUILD-FAIL: %s\n", tailS(b.Out, 600))
		}
		o.Sample = map[string]any{"build": tailS(b.Out, 400)}
		return
	}
	// scan
	var sw *spec.Swagger
	var err error
	panicked, pmsg, stack := pbt.Recover(func() {
		sw, err = codescan.Run(&codescan.Options{Packages: []string{"./models"}, WorkDir: dir, ScanModels: true})
	})
	if panicked {
		o.Fail("C16|scan-panic|"+pbt.TopFrame(stack, "codescan"), "scanning the models panicked: %s\n%s", pmsg, tailS(string(stack), 1500))
		return
	}
	if err != nil {
		o.Fail("C16|scan-error|"+errClass(err.Error()), "scanning well-typed annotated models failed: %v", err)
		return
	}
	raw, _ := json.Marshal(sw)
	root, _ := specgen.Parse(raw)
	defs, _ := root["definitions"].(J)
	// marshal samples
	var reqs []hreq
	for _, m := range c.Models {
		for v := 0; v < 3; v++ {
			reqs = append(reqs, hreq{Op: "marshal", Type: m.Name, Variant: v})
		}
	}
	resps, herr := runHarness(dir, bin, reqs)
	if herr != nil {
		o.Discard = true
		o.Class("discard:harness-died")
		return
	}
	i := 0
	var unreqs []hreq
	var unmeta []struct {
		m    ModelInfo
		doc  string
		kind string
	}
	for _, m := range c.Models {
		def, ok := defs[m.Name].(J)
		if !ok {
			mc := m.Class
			if strings.HasPrefix(mc, "named:alias=") {
				mc = "named:alias"
			}
			o.Fail("C16|definition-missing|"+mc, "the annotated type %s has no definition in the scanned spec (definitions: %v)", m.Name, work.SortedKeys(defs))
			i += 3
			continue
		}
		o.NT(m.Class + "|" + fieldKey(m))
		// numeric formats must denote the range of the Go kind
		if props, ok := def["properties"].(J); ok {
			for _, f := range m.Fields {
				kind := strings.SplitN(f.Class, ",", 2)[0]
				want, isNum := numericFormat[kind]
				if !isNum {
					continue
				}
				pj, _ := props[f.JSONName].(J)
				if pj == nil {
					continue // embedded / ignored: covered by the encoding oracle
				}
				o.Evals++
				got, _ := pj["format"].(string)
				if got != want {
					o.Fail("C16|numeric-format-differs|"+kind, "field %s.%s of Go kind %s is described with format %q, its range is that of %q\ndefinition: %s", m.Name, f.JSONName, kind, got, want, short(pj))
				}
			}
		}
		for v := 0; v < 3; v++ {
			r := resps[i]
			i++
			if r.Err != "" || r.Panic != "" {
				continue // the value cannot be encoded: outside the property
			}
			o.Evals++
			var val any
			_ = json.Unmarshal([]byte(r.Out), &val)
			// Swagger 2.0 cannot express null: a nil pointer / slice / map / interface member is left out of the comparison
			val = dropNulls(val)
			if val == nil {
				continue
			}
			errs := refmodel.Validate(root, def, val, "")
			libOK := true
			var libMsg string
			if pk, _, _ := pbt.Recover(func() {
				res := validate.NewSchemaValidator(schemaOf(sw, m.Name), sw, "", strfmt.Default).Validate(val)
				if res != nil && !res.IsValid() {
					libOK = false
					libMsg = res.Errors[0].Error()
				}
			}); pk {
				libOK, libMsg = false, "validator panic"
			}
			if len(errs) > 0 && !libOK {
				// one finding per (declared shape, encoded kind, keyword): a known divergence does not hide another one in the same value
				seen := map[string]bool{}
				for _, e := range errs {
					path := e
					if k := strings.LastIndex(path, ": "); k >= 0 {
						path = path[:k]
					}
					declared, got := at(root, def, val, path)
					sig := "C16|encoding-invalid-for-definition|declared=" + declared + "|encoded=" + got + "|" + errClass(stripPath(e))
					if seen[sig] {
						continue
					}
					seen[sig] = true
					o.Fail(sig, "json.Marshal of a %s value is not valid for the scanned definition:\nvalue: %s\nerror: %s\nlibrary: %s\ndefinition: %s", m.Name, r.Out, e, libMsg, short(def))
				}
			} else if len(errs) > 0 != !libOK {
				o.Class("oracle-disagreement")
			}
		}
		// documents the definition accepts
		for _, full := range []bool{false, true} {
			doc := canon(root, def, full, 0)
			if errs := refmodel.Validate(root, def, doc, ""); len(errs) > 0 {
				continue // canonical builder could not satisfy the schema
			}
			b, _ := json.Marshal(doc)
			unreqs = append(unreqs, hreq{Op: "unmarshal", Type: m.Name, Doc: b})
			unmeta = append(unmeta, struct {
				m    ModelInfo
				doc  string
				kind string
			}{m, string(b), map[bool]string{false: "required-only", true: "all-properties"}[full]})
		}
	}
	{
		var ms []string
		for _, m := range c.Models {
			ms = append(ms, m.Name+":"+m.Class+"["+fieldKey(m)+"]")
		}
		o.Sample = map[string]any{"models": ms, "marshalled_values": i, "documents_decoded": len(unreqs)}
	}
	if len(unreqs) > 0 {
		uresps, herr := runHarness(dir, bin, unreqs)
		if herr == nil {
			for k, r := range uresps {
				o.Evals++
				if r.Err != "" || r.Panic != "" {
					m := unmeta[k].m
					fc := fieldClass(m, r.Err)
					_ = fc
					o.Fail("C16|accepted-document-does-not-decode|"+strings.SplitN(m.Class, ":", 2)[0]+"|"+errClass(r.Err+r.Panic), "a document valid for the scanned definition of %s does not decode into the type:\ndocument: %s\nerror: %s%s\ndefinition: %s", m.Name, unmeta[k].doc, r.Err, r.Panic, short(defs[m.Name]))
				}
			}
		}
	}
	return
}

func dropNulls(v any) any {
	switch x := v.(type) {
	case map[string]any:
		for k, e := range x {
			if e == nil {
				delete(x, k)
			} else {
				x[k] = dropNulls(e)
			}
		}
		return x
	case []any:
		out := make([]any, 0, len(x))
		for _, e := range x {
			if e != nil {
				out = append(out, dropNulls(e))
			}
		}
		return out
	}
	return v
}

var rePathStep = regexp.MustCompile(`\.([^.\[\]]+)|\[(\d+)\]`)

// at walks definition and value along a validator path (.a.b[0].c) and describes both ends.
func at(root J, def J, val any, path string) (string, string) {
	s := def
	v := val
	for _, m := range rePathStep.FindAllStringSubmatch(path, -1) {
		s = refmodel.Resolve(root, s)
		if s == nil {
			break
		}
		if m[1] != "" {
			var next J
			if props, ok := s["properties"].(J); ok {
				next, _ = props[m[1]].(J)
			}
			if next == nil {
				for _, ao := range asList(s["allOf"]) {
					if aj, ok := ao.(J); ok {
						aj = refmodel.Resolve(root, aj)
						if props, ok := aj["properties"].(J); ok && next == nil {
							next, _ = props[m[1]].(J)
						}
					}
				}
			}
			if next == nil {
				next, _ = s["additionalProperties"].(J)
			}
			s = next
			if mv, ok := v.(map[string]any); ok {
				v = mv[m[1]]
			} else {
				v = nil
			}
		} else {
			s, _ = s["items"].(J)
			if av, ok := v.([]any); ok {
				var i int
				fmt.Sscanf(m[2], "%d", &i)
				if i < len(av) {
					v = av[i]
				} else {
					v = nil
				}
			} else {
				v = nil
			}
		}
	}
	return shape(root, s, 0), kindOf(v)
}

func shape(root J, s J, depth int) string {
	if s == nil {
		return "undeclared"
	}
	s = refmodel.Resolve(root, s)
	if s == nil {
		return "dangling-ref"
	}
	ty, _ := s["type"].(string)
	if ty == "" {
		switch {
		case s["allOf"] != nil:
			return "allOf"
		case s["properties"] != nil:
			ty = "object"
		default:
			return "any"
		}
	}
	if f, ok := s["format"].(string); ok {
		ty += ":" + f
	}
	if ty == "array" && depth < 1 {
		it, _ := s["items"].(J)
		return "array<" + shape(root, it, depth+1) + ">"
	}
	return ty
}

func kindOf(v any) string {
	switch v.(type) {
	case nil:
		return "null"
	case string:
		return "string"
	case float64, json.Number:
		return "number"
	case bool:
		return "boolean"
	case []any:
		return "array"
	case map[string]any:
		return "object"
	}
	return fmt.Sprintf("%T", v)
}

// numericFormat: the Swagger format whose range is that of the Go kind (int and uint are 64 bits wide on the platforms go-swagger targets).
var numericFormat = map[string]string{
	"int": "int64", "int8": "int8", "int16": "int16", "int32": "int32", "int64": "int64", "rune": "int32",
	"uint": "uint64", "uint8": "uint8", "uint16": "uint16", "uint32": "uint32", "uint64": "uint64", "byte": "uint8",
	"float32": "float", "float64": "double",
}

func fieldKey(m ModelInfo) string {
	var cs []string
	for _, f := range m.Fields {
		cs = append(cs, f.Class)
	}
	sort.Strings(cs)
	return strings.Join(cs, "+")
}

func schemaOf(sw *spec.Swagger, name string) *spec.Schema {
	s := sw.Definitions[name]
	return &s
}

var rePath = regexp.MustCompile(`^[^:]*: `)

func stripPath(s string) string { return rePath.ReplaceAllString(s, "") }

func short(v any) string {
	b, _ := json.Marshal(v)
	if len(b) > 700 {
		return string(b[:700]) + "…"
	}
	return string(b)
}

func pbtHash(s string) uint64 {
	var h uint64 = 1469598103934665603
	for i := 0; i < len(s); i++ {
		h ^= uint64(s[i])
		h *= 1099511628211
	}
	return h
}

func TestProp(t *testing.T) {
	pbt.Main(t, pbt.Prop[Case]{
		ID:   "C16",
		Rule: "generated Go packages of 2-5 struct models and 0-3 named non-struct types (annotated swagger:model), fields drawn from a type grammar: every basic kind incl. byte and rune, time.Time, interface{}, []byte, pointers, slices, arrays, string-keyed maps, other models (by value, pointer, slice, map), anonymous structs, named types and aliases, embedded structs (value, pointer, tagged), with json tags (rename, omitempty, '-', ',string'), unexported fields and swagger:ignore. The package is scanned in-process by codescan.Run(ScanModels) and compiled into a harness. Oracle 1: for the zero, the fully populated and a half-populated value of every model (built by reflection), json.Marshal output must validate against the scanned definition (violation only when both the self-written validator and go-openapi/validate reject it). Oracle 2: the required-only and the all-properties document built from the scanned definition (and valid for it) must json.Unmarshal into the type. Non-trivial: annotated model with a scanned definition; distinct by (model kind, multiset of field classes).",
		Assumptions: []string{
			"values that encoding/json cannot encode are skipped",
			"documents for oracle 2 are canonical (small integers, fixed strings per format), so range overflow of narrow integer kinds is not probed",
		},
		Gen:   gen,
		Check: check,
	})
}
