// Concurrency helper for property C07: runs several generations concurrently in ONE process
// through the exported command structs / library API (built with -race by the check).
package main

import (
	"encoding/json"
	"fmt"
	"io"
	"log"
	"os"
	"sync"

	"github.com/jessevdk/go-flags"

	"github.com/go-swagger/go-swagger/cmd/swagger/commands/generate"
)

type job struct {
	Kind string   `json:"kind"` // server | client | model | cli | markdown
	Args []string `json:"args"`
}

type executor interface{ Execute([]string) error }

func run(j job) (err error) {
	defer func() {
		if r := recover(); r != nil {
			err = fmt.Errorf("panic: %v", r)
		}
	}()
	var cmd executor
	switch j.Kind {
	case "server":
		cmd = &generate.Server{}
	case "client":
		cmd = &generate.Client{}
	case "model":
		cmd = &generate.Model{}
	case "cli":
		cmd = &generate.Cli{}
	case "markdown":
		cmd = &generate.Markdown{}
	default:
		return fmt.Errorf("unknown kind %q", j.Kind)
	}
	p := flags.NewParser(cmd, flags.HelpFlag|flags.PassDoubleDash)
	if _, err := p.ParseArgs(j.Args); err != nil {
		return fmt.Errorf("args: %w", err)
	}
	return cmd.Execute(nil)
}

func main() {
	log.SetOutput(io.Discard)
	var jobs []job
	if err := json.NewDecoder(os.Stdin).Decode(&jobs); err != nil {
		fmt.Fprintln(os.Stderr, "bad input:", err)
		os.Exit(3)
	}
	sequential := len(os.Args) > 1 && os.Args[1] == "sequential"
	errs := make([]string, len(jobs))
	var wg sync.WaitGroup
	for i := range jobs {
		wg.Add(1)
		f := func(i int) {
			defer wg.Done()
			if err := run(jobs[i]); err != nil {
				errs[i] = err.Error()
			}
		}
		if sequential {
			f(i)
		} else {
			go f(i)
		}
	}
	wg.Wait()
	_ = json.NewEncoder(os.Stdout).Encode(errs)
}
