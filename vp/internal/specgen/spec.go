package specgen

import (
	"encoding/json"
	"fmt"
	"strings"

	"pgregory.net/rapid"
)

// SpecCfg steers whole-document generation.
type SpecCfg struct {
	Schema  Opts
	Simple  SimpleOpts
	MinDefs int
	MaxDefs int
	MinPaths int
	MaxPaths int
	MaxParams int
	DefName   func(*rapid.T, string) string
	ParamName func(*rapid.T, string) string
	OpID      func(*rapid.T, string) string // nil: plain unique ids
	MissingOpIDs bool
	Tags      bool
	TagName   func(*rapid.T, string) string
	Meta      bool // host, basePath, schemes, consumes, produces
	Security  bool
	Extensions bool
	SharedParams bool // path-level parameters
	RespHeaders bool
	FormData  bool
	Body      bool
	Deprecated bool
	OpConsumes bool
	Methods   []string
	DefaultResponse bool
	Text func(*rapid.T, string) string
	ExtValue func(*rapid.T, string) any
	// AcyclicRefs: definition i may only reference definitions declared before it
	// (plus, now and then, itself), which keeps $ref expansion small.
	AcyclicRefs bool
	// UniqueParamNames: parameter names of one operation are distinct across
	// locations, ignoring case and punctuation (reflection harnesses match on that key).
	UniqueParamNames bool
	AllowEmptyPct    int // chance of allowEmptyValue on query/formData parameters (default 10)
	// FocusParams: the first parameter of every operation is drawn uniformly from the
	// catalogue {location} x {type} x {required, optional, +allowEmptyValue, +default},
	// half of the time without any validation keyword.
	FocusParams bool
}

var allMethods = []string{"get", "put", "post", "delete", "options", "head", "patch"}

func (c *SpecCfg) text(t *rapid.T, label string) string {
	if c.Text != nil {
		return c.Text(t, label)
	}
	return rapid.SampledFrom([]string{"some text", "another text", "the thing", "x y z"}).Draw(t, label)
}

var mediaTypes = []string{"application/json", "application/xml", "text/plain", "application/x-www-form-urlencoded", "multipart/form-data", "application/octet-stream"}

func subset(t *rapid.T, label string, pool []string, min int) A {
	var out A
	for i, p := range pool {
		if chance(t, fmt.Sprintf("%s_%d", label, i), 40) {
			out = append(out, p)
		}
	}
	for i := 0; len(out) < min && i < len(pool); i++ {
		dup := false
		for _, o := range out {
			if o == pool[i] {
				dup = true
			}
		}
		if !dup {
			out = append(out, pool[i])
		}
	}
	return out
}

func (c *SpecCfg) ext(t *rapid.T, label string, into J, pct int) {
	if chance(t, label+"_hasext", pct) {
		if c.ExtValue != nil {
			into["x-"+PlainName(t, label+"_extk")] = c.ExtValue(t, label+"_extv")
			return
		}
		into["x-"+PlainName(t, label+"_extk")] = rapid.SampledFrom([]any{"v", "w", 1, 2.5, true, A{"a", "b"}, J{"k": "v"}, J{"k": A{1, 2}}}).Draw(t, label+"_extv")
	}
}

// Spec generates a Swagger 2.0 document as a JSON tree.
func Spec(t *rapid.T, c *SpecCfg) J {
	doc := J{"swagger": "2.0"}
	info := J{"title": c.text(t, "title"), "version": rapid.SampledFrom([]string{"1.0", "0.1.0", "2", "v1"}).Draw(t, "version")}
	if chance(t, "infodesc", 40) {
		info["description"] = c.text(t, "infodesc_t")
	}
	if c.Extensions {
		c.ext(t, "infoext", info, 15)
		if chance(t, "contact", 20) {
			ct := J{"name": c.text(t, "contact_name")}
			c.ext(t, "contactext", ct, 40)
			info["contact"] = ct
		}
		if chance(t, "license", 20) {
			lc := J{"name": "MIT"}
			c.ext(t, "licenseext", lc, 40)
			info["license"] = lc
		}
		c.ext(t, "rootext", doc, 15)
	}
	doc["info"] = info
	if c.Meta {
		if chance(t, "hashost", 50) {
			doc["host"] = rapid.SampledFrom([]string{"example.com", "api.example.org:8080", "localhost"}).Draw(t, "host")
		}
		if chance(t, "hasbase", 50) {
			doc["basePath"] = rapid.SampledFrom([]string{"/", "/v1", "/api/v2"}).Draw(t, "basePath")
		}
		if chance(t, "hasschemes", 50) {
			doc["schemes"] = subset(t, "schemes", []string{"http", "https", "ws", "wss"}, 1)
		}
		if chance(t, "hasconsumes", 60) {
			doc["consumes"] = subset(t, "consumes", mediaTypes[:3], 1)
		}
		if chance(t, "hasproduces", 60) {
			doc["produces"] = subset(t, "produces", mediaTypes[:3], 1)
		}
	}

	// definitions
	nd := rapid.IntRange(c.MinDefs, c.MaxDefs).Draw(t, "ndefs")
	usedDefs := map[string]bool{}
	var defNames []string
	dn := c.DefName
	if dn == nil {
		dn = func(t *rapid.T, l string) string {
			n := PlainName(t, l)
			return strings.ToUpper(n[:1]) + n[1:]
		}
	}
	for i := 0; i < nd; i++ {
		defNames = append(defNames, Unique(t, fmt.Sprintf("def%d", i), usedDefs, strings.ToLower, dn))
	}
	so := c.Schema
	so.Refs = defNames
	if so.Text == nil {
		so.Text = c.Text
	}
	if so.ExtValue == nil {
		so.ExtValue = c.ExtValue
	}
	if nd > 0 {
		defs := J{}
		soAll := so
		ancestors := map[string]map[string]bool{}
		var objDefs []string // allOf members must be object definitions declared earlier (acyclic ancestry)
		for i, n := range defNames {
			var s J
			so := *soAll.WithAllOfRefs(append([]string{}, objDefs...))
			if c.AcyclicRefs {
				so.Refs = append([]string{}, defNames[:i]...)
				if chance(t, fmt.Sprintf("def%d_selfref", i), 15) {
					so.Refs = append(so.Refs, n)
				}
			}
			// ancestry of this definition: every allOf-referenced definition and its
			// own ancestors may occur only once
			mine := map[string]bool{}
			ancestors[n] = mine
			so.AllOfOK = func(r string) bool {
				if mine[r] {
					return false
				}
				for a := range ancestors[r] {
					if mine[a] {
						return false
					}
				}
				return true
			}
			so.AllOfUse = func(r string) {
				mine[r] = true
				for a := range ancestors[r] {
					mine[a] = true
				}
			}
			if chance(t, fmt.Sprintf("def%d_isobj", i), 60) {
				if so.Core {
					// a definition usable as allOf member is a plain object: no allOf, no additionalProperties
					if chance(t, fmt.Sprintf("def%d_member", i), 50) {
						so.AllOf, so.AddlProps = false, false
						objDefs = append(objDefs, n)
					}
				} else {
					objDefs = append(objDefs, n)
				}
				s = J{}
				ObjectInto(t, fmt.Sprintf("def%d", i), &so, 0, s)
				if so.Descr && chance(t, fmt.Sprintf("def%d_hasdesc", i), 30) {
					s["description"] = so.text(t, fmt.Sprintf("def%d_desc", i))
				}
			} else {
				s = Schema(t, fmt.Sprintf("def%d", i), &so, 0)
				// a definition that is a bare $ref to itself is not valid; avoid direct self alias
				if r, ok := s["$ref"].(string); ok && r == "#/definitions/"+n {
					s = J{"type": "string"}
				}
			}
			defs[n] = s
		}
		breakAliasCycles(defs)
		doc["definitions"] = defs
	}

	// tags
	var tagNames []string
	if c.Tags {
		nt := rapid.IntRange(0, 3).Draw(t, "ntags")
		used := map[string]bool{}
		tn := c.TagName
		if tn == nil {
			tn = PlainName
		}
		var tags A
		for i := 0; i < nt; i++ {
			name := Unique(t, fmt.Sprintf("tag%d", i), used, strings.ToLower, tn)
			tagNames = append(tagNames, name)
			tg := J{"name": name}
			if chance(t, fmt.Sprintf("tag%d_desc", i), 40) {
				tg["description"] = c.text(t, fmt.Sprintf("tag%d_desc_t", i))
			}
			if c.Extensions {
				c.ext(t, fmt.Sprintf("tag%d_ext", i), tg, 30)
			}
			if chance(t, fmt.Sprintf("tag%d_declared", i), 70) {
				tags = append(tags, tg)
			}
		}
		if len(tags) > 0 {
			doc["tags"] = tags
		}
	}

	// security
	var secNames []string
	if c.Security && chance(t, "hassec", 60) {
		sd := J{}
		n := rapid.IntRange(1, 3).Draw(t, "nsec")
		used := map[string]bool{}
		for i := 0; i < n; i++ {
			name := Unique(t, fmt.Sprintf("sec%d", i), used, strings.ToLower, PlainName)
			var s J
			switch rapid.IntRange(0, 3).Draw(t, fmt.Sprintf("sec%d_kind", i)) {
			case 0:
				s = J{"type": "basic"}
			case 1:
				s = J{"type": "apiKey", "in": "header", "name": "X-" + PlainName(t, fmt.Sprintf("sec%d_hn", i))}
			case 2:
				s = J{"type": "apiKey", "in": "query", "name": PlainName(t, fmt.Sprintf("sec%d_qn", i))}
			default:
				s = J{"type": "oauth2", "flow": "password", "tokenUrl": "https://example.com/token", "scopes": J{"read": "read things", "write": "write things"}}
			}
			if c.Extensions {
				c.ext(t, fmt.Sprintf("sec%d_ext", i), s, 30)
			}
			sd[name] = s
			secNames = append(secNames, name)
		}
		doc["securityDefinitions"] = sd
		if chance(t, "globalsec", 50) {
			doc["security"] = secReq(t, "gsec", sd, secNames)
		}
	}

	// paths
	np := rapid.IntRange(c.MinPaths, c.MaxPaths).Draw(t, "npaths")
	paths := J{}
	usedPaths := map[string]bool{}
	usedIDs := map[string]bool{}
	methods := c.Methods
	if methods == nil {
		methods = allMethods
	}
	pn := c.ParamName
	if pn == nil {
		pn = PlainName
	}
	for i := 0; i < np; i++ {
		pl := fmt.Sprintf("path%d", i)
		// path template
		nseg := rapid.IntRange(1, 3).Draw(t, pl+"_nseg")
		var segs []string
		var pathParams []string
		usedPP := map[string]bool{}
		for j := 0; j < nseg; j++ {
			if j > 0 && chance(t, fmt.Sprintf("%s_seg%d_isparam", pl, j), 40) {
				n := Unique(t, fmt.Sprintf("%s_pp%d", pl, j), usedPP, strings.ToLower, PlainName)
				pathParams = append(pathParams, n)
				segs = append(segs, "{"+n+"}")
			} else {
				segs = append(segs, PlainName(t, fmt.Sprintf("%s_seg%d", pl, j)))
			}
		}
		p := "/" + strings.Join(segs, "/")
		shape := pathShape(p)
		if usedPaths[shape] {
			continue
		}
		usedPaths[shape] = true
		item := J{}
		shared := c.SharedParams && chance(t, pl+"_shared", 35)
		if shared {
			var ps A
			for _, n := range pathParams {
				ps = append(ps, pathParam(t, pl+"_sp_"+n, n, c))
			}
			if chance(t, pl+"_sharedq", 50) {
				q := Simple(t, pl+"_sq", withIn(c.Simple, "query"), 0)
				q["name"] = "shared" + PlainName(t, pl+"_sqn")
				q["in"] = "query"
				ps = append(ps, q)
			}
			if len(ps) > 0 {
				item["parameters"] = ps
			}
		}
		if c.Extensions {
			c.ext(t, pl+"_ext", item, 10)
		}
		nm := rapid.IntRange(1, 3).Draw(t, pl+"_nmeth")
		usedM := map[string]bool{}
		for j := 0; j < nm; j++ {
			m := rapid.SampledFrom(methods).Draw(t, fmt.Sprintf("%s_m%d", pl, j))
			if usedM[m] {
				continue
			}
			usedM[m] = true
			ol := fmt.Sprintf("%s_%s", pl, m)
			op := J{}
			if !(c.MissingOpIDs && chance(t, ol+"_noid", 30)) {
				gen := c.OpID
				if gen == nil {
					gen = func(t *rapid.T, l string) string { return m + strings.Title(PlainName(t, l)) }
				}
				op["operationId"] = Unique(t, ol+"_id", usedIDs, strings.ToLower, gen)
			}
			if chance(t, ol+"_hasdesc", 30) {
				op["description"] = c.text(t, ol+"_desc")
			}
			if chance(t, ol+"_hassum", 30) {
				op["summary"] = c.text(t, ol+"_sum")
			}
			if c.Deprecated && chance(t, ol+"_depr", 10) {
				op["deprecated"] = true
			}
			if len(tagNames) > 0 && chance(t, ol+"_hastags", 60) {
				tg := subset(t, ol+"_tags", tagNames, 1)
				op["tags"] = tg
			}
			if c.Extensions {
				c.ext(t, ol+"_ext", op, 15)
			}
			var params A
			usedPN := map[string]bool{}
			for _, n := range pathParams {
				usedPN["path:"+strings.ToLower(n)] = true
				usedPN["any:"+alnumLower(n)] = true
			}
			usedPN["any:body"] = true
			for _, sp := range asList(item["parameters"]) {
				if spj, ok := sp.(J); ok {
					usedPN["any:"+alnumLower(str(spj["name"]))] = true
				}
			}
			if !shared {
				for _, n := range pathParams {
					params = append(params, pathParam(t, ol+"_pp_"+n, n, c))
				}
			} else if len(pathParams) > 0 && chance(t, ol+"_override", 20) {
				// override one shared path-level parameter at operation level
				params = append(params, pathParam(t, ol+"_ov", pathParams[0], c))
			}
			hasBodyish := m != "get" && m != "head" && m != "delete" && m != "options"
			mode := "none"
			if hasBodyish {
				opts := []string{"none"}
				if c.Body {
					opts = append(opts, "body", "body")
				}
				if c.FormData {
					opts = append(opts, "form")
				}
				mode = rapid.SampledFrom(opts).Draw(t, ol+"_bodymode")
			}
			np := rapid.IntRange(0, c.MaxParams).Draw(t, ol+"_nparams")
			if c.FocusParams && np == 0 {
				np = 1
			}
			for k := 0; k < np; k++ {
				kl := fmt.Sprintf("%s_p%d", ol, k)
				ins := []string{"query", "query", "header"}
				if mode == "form" {
					ins = append(ins, "formData", "formData")
				}
				in := rapid.SampledFrom(ins).Draw(t, kl+"_in")
				keyf := func(s string) string { return in + ":" + strings.ToLower(s) }
				if c.UniqueParamNames {
					keyf = func(s string) string { return "any:" + alnumLower(s) }
				}
				name := Unique(t, kl+"_name", usedPN, keyf, pn)
				if in == "header" {
					name = "X-" + name
				}
				ps := Simple(t, kl, withIn(c.Simple, in), 0)
				ps["name"] = name
				ps["in"] = in
				if c.FocusParams && k == 0 {
					if mode == "form" && chance(t, kl+"_focus_form", 60) && in != "formData" {
						// re-home the focus parameter into the form
						in = "formData"
						ps["in"] = in
						if strings.HasPrefix(name, "X-") {
							name = strings.TrimPrefix(name, "X-")
							ps["name"] = name
						}
					}
					if chance(t, kl+"_focus_plain", 50) {
						ty := rapid.SampledFrom([]string{"string", "string", "integer", "number", "boolean", "array"}).Draw(t, kl+"_focus_type")
						for kk := range ps {
							if kk != "name" && kk != "in" {
								delete(ps, kk)
							}
						}
						ps["type"] = ty
						if ty == "array" {
							ps["items"] = J{"type": rapid.SampledFrom([]string{"string", "integer", "boolean"}).Draw(t, kl+"_focus_items")}
						}
					}
					flags := rapid.SampledFrom([]string{"required", "optional", "required+aev", "optional+aev", "optional+default"}).Draw(t, kl+"_focus_flags")
					delete(ps, "default")
					if strings.HasPrefix(flags, "required") {
						ps["required"] = true
					}
					if strings.HasSuffix(flags, "+aev") && (in == "query" || in == "formData") {
						ps["allowEmptyValue"] = true
					}
					if strings.HasSuffix(flags, "+default") && ps["type"] != "file" {
						if v, ok := ValidSimple(t, kl+"_focus_def", ps); ok {
							ps["default"] = v
						}
					}
					if chance(t, kl+"_hasdesc", 20) {
						ps["description"] = c.text(t, kl+"_desc")
					}
					params = append(params, ps)
					continue
				}
				if chance(t, kl+"_req", 35) {
					ps["required"] = true
					delete(ps, "default")
				}
				aevPct := c.AllowEmptyPct
				if aevPct == 0 {
					aevPct = 10
				}
				if (in == "query" || in == "formData") && chance(t, kl+"_aev", aevPct) {
					ps["allowEmptyValue"] = true
				}
				if chance(t, kl+"_hasdesc", 20) {
					ps["description"] = c.text(t, kl+"_desc")
				}
				params = append(params, ps)
			}
			if mode == "body" {
				b := J{"name": "body", "in": "body", "schema": Schema(t, ol+"_body", &so, 1)}
				if chance(t, ol+"_bodyreq", 50) {
					b["required"] = true
				}
				if c.Extensions {
					c.ext(t, ol+"_bodyext", b, 10)
				}
				params = append(params, b)
			}
			if mode == "form" {
				op["consumes"] = A{rapid.SampledFrom([]string{"application/x-www-form-urlencoded", "multipart/form-data"}).Draw(t, ol+"_formct")}
				for _, p := range params {
					if pj := p.(J); pj["type"] == "file" {
						op["consumes"] = A{"multipart/form-data"}
					}
				}
			} else if c.OpConsumes && hasBodyish && chance(t, ol+"_opconsumes", 30) {
				op["consumes"] = subset(t, ol+"_consumes", mediaTypes[:3], 1)
			}
			if c.OpConsumes && chance(t, ol+"_opproduces", 20) {
				op["produces"] = subset(t, ol+"_produces", mediaTypes[:3], 1)
			}
			if len(params) > 0 {
				op["parameters"] = params
			}
			// responses
			resps := J{}
			nr := rapid.IntRange(1, 3).Draw(t, ol+"_nresp")
			codes := []string{"200", "201", "204", "400", "404", "500"}
			for k := 0; k < nr; k++ {
				code := rapid.SampledFrom(codes).Draw(t, fmt.Sprintf("%s_code%d", ol, k))
				if k == 0 {
					code = rapid.SampledFrom(codes[:3]).Draw(t, fmt.Sprintf("%s_code%d_ok", ol, k))
				}
				if _, dup := resps[code]; dup {
					continue
				}
				resps[code] = response(t, fmt.Sprintf("%s_r%s", ol, code), c, &so, code != "204")
			}
			if c.DefaultResponse && chance(t, ol+"_defresp", 30) {
				resps["default"] = response(t, ol+"_rdef", c, &so, true)
			}
			if c.Extensions {
				c.ext(t, ol+"_respext", resps, 8)
			}
			op["responses"] = resps
			if len(secNames) > 0 && chance(t, ol+"_opsec", 40) {
				if chance(t, ol+"_opsec_empty", 25) {
					op["security"] = A{}
				} else {
					op["security"] = secReq(t, ol+"_sec", doc["securityDefinitions"].(J), secNames)
				}
			}
			item[m] = op
		}
		paths[p] = item
	}
	doc["paths"] = paths
	return doc
}

func withIn(o SimpleOpts, in string) SimpleOpts { o.In = in; return o }

func alnumLower(s string) string {
	var sb strings.Builder
	for _, r := range strings.ToLower(s) {
		if (r >= 'a' && r <= 'z') || (r >= '0' && r <= '9') || r > 127 {
			sb.WriteRune(r)
		}
	}
	return sb.String()
}

func pathShape(p string) string {
	segs := strings.Split(p, "/")
	for i, s := range segs {
		if strings.HasPrefix(s, "{") {
			segs[i] = "{}"
		}
	}
	return strings.Join(segs, "/")
}

func pathParam(t *rapid.T, label, name string, c *SpecCfg) J {
	o := withIn(c.Simple, "path")
	o.Defaults = false
	ps := Simple(t, label, o, 0)
	// empty strings cannot be routed; keep path parameter constraints satisfiable by non-empty text
	ps["name"] = name
	ps["in"] = "path"
	ps["required"] = true
	return ps
}

func response(t *rapid.T, label string, c *SpecCfg, so *Opts, allowSchema bool) J {
	r := J{"description": c.text(t, label+"_desc")}
	if allowSchema && chance(t, label+"_hasschema", 65) {
		r["schema"] = Schema(t, label+"_schema", so, 1)
	}
	if c.RespHeaders && chance(t, label+"_hashdr", 30) {
		h := J{}
		n := rapid.IntRange(1, 2).Draw(t, label+"_nh")
		for i := 0; i < n; i++ {
			o := withIn(c.Simple, "")
			o.File = false
			o.Defaults = false // go-openapi/validate rejects defaults on response headers ("<header> in response is required")
			hs := Simple(t, fmt.Sprintf("%s_h%d", label, i), o, 0)
			if cf, _ := hs["collectionFormat"].(string); cf == "multi" {
				delete(hs, "collectionFormat")
			}
			if chance(t, fmt.Sprintf("%s_h%d_desc", label, i), 30) {
				hs["description"] = c.text(t, fmt.Sprintf("%s_h%d_desc_t", label, i))
			}
			h["X-"+strings.Title(PlainName(t, fmt.Sprintf("%s_hn%d", label, i)))] = hs
		}
		r["headers"] = h
	}
	if c.Extensions {
		c.ext(t, label+"_ext", r, 8)
	}
	return r
}

func secReq(t *rapid.T, label string, defs J, names []string) A {
	var out A
	n := rapid.IntRange(1, 2).Draw(t, label+"_nalt")
	for i := 0; i < n; i++ {
		alt := J{}
		k := rapid.IntRange(1, 2).Draw(t, fmt.Sprintf("%s_alt%d_n", label, i))
		for j := 0; j < k; j++ {
			nm := rapid.SampledFrom(names).Draw(t, fmt.Sprintf("%s_alt%d_%d", label, i, j))
			scopes := A{}
			if d, _ := defs[nm].(J); d != nil && d["type"] == "oauth2" {
				scopes = subset(t, fmt.Sprintf("%s_alt%d_%d_sc", label, i, j), []string{"read", "write"}, 0)
				if scopes == nil {
					scopes = A{}
				}
			}
			alt[nm] = scopes
		}
		dup := false
		for _, prev := range out {
			if string(JSONBytes(prev)) == string(JSONBytes(alt)) {
				dup = true
			}
		}
		if !dup {
			out = append(out, alt)
		}
	}
	return out
}

// breakAliasCycles rewrites definitions that are pure $ref chains looping on
// themselves (A -> B -> A), which no tool can resolve.
func breakAliasCycles(defs J) {
	for name := range defs {
		seen := map[string]bool{name: true}
		cur := name
		for {
			s, _ := defs[cur].(J)
			r, ok := s["$ref"].(string)
			if !ok {
				break
			}
			next := strings.TrimPrefix(r, "#/definitions/")
			if seen[next] {
				defs[cur] = J{"type": "string"}
				break
			}
			seen[next] = true
			cur = next
		}
	}
}

// JSONBytes renders a tree canonically (sorted keys).
func JSONBytes(v any) []byte {
	b, err := json.Marshal(v)
	if err != nil {
		panic(err)
	}
	return b
}

// Clone deep-copies a tree through JSON (numbers become float64).
func Clone(v any) any {
	var out any
	if err := json.Unmarshal(JSONBytes(v), &out); err != nil {
		panic(err)
	}
	return out
}

// CloneJ clones an object tree.
func CloneJ(v J) J { return Clone(v).(J) }

// Parse decodes JSON bytes into a tree.
func Parse(b []byte) (J, error) {
	var out J
	err := json.Unmarshal(b, &out)
	return out, err
}
