package specgen

import (
	"bytes"
	"encoding/json"
	"fmt"
	"sort"
	"strings"
)

// lcg is a tiny deterministic generator so that a permutation is a pure
// function of a seed drawn by rapid (no RNG of our own inside a property).
type lcg uint64

func (l *lcg) next() uint64 {
	*l = *l*6364136223846793005 + 1442695040888963407
	return uint64(*l >> 33)
}

func (l *lcg) perm(n int) []int {
	p := make([]int, n)
	for i := range p {
		p[i] = i
	}
	for i := n - 1; i > 0; i-- {
		j := int(l.next() % uint64(i+1))
		p[i], p[j] = p[j], p[i]
	}
	return p
}

func jsonString(s string) string {
	var buf bytes.Buffer
	enc := json.NewEncoder(&buf)
	enc.SetEscapeHTML(false)
	_ = enc.Encode(s)
	return strings.TrimRight(buf.String(), "\n")
}

// yamlString renders a YAML double-quoted scalar: the JSON form with every
// character YAML does not allow raw (DEL, C1 controls incl. NEL, BOM, LS/PS,
// non-characters) written as an escape.
func yamlString(s string) string {
	j := jsonString(s)
	var sb strings.Builder
	for _, r := range j {
		switch {
		case r == 0x7f || (r >= 0x80 && r <= 0x9f) || r == 0xfeff || r == 0x2028 || r == 0x2029 || r == 0xfffe || r == 0xffff || r == 0xfffd:
			fmt.Fprintf(&sb, "\\u%04x", r)
		case r > 0xffff:
			fmt.Fprintf(&sb, "\\U%08x", r)
		default:
			sb.WriteRune(r)
		}
	}
	return sb.String()
}

func jsonScalar(v any) string {
	switch x := v.(type) {
	case string:
		return jsonString(x)
	default:
		b, _ := json.Marshal(v)
		return string(b)
	}
}

// YAML renders a tree as block-style YAML in which every string (keys
// included) is double-quoted, so that any conformant parser yields the tree.
func YAML(v any) []byte {
	var sb strings.Builder
	yamlNode(&sb, v, 0, false)
	return []byte(sb.String())
}

func yamlNode(sb *strings.Builder, v any, indent int, inline bool) {
	pad := strings.Repeat("  ", indent)
	switch x := v.(type) {
	case map[string]any:
		if len(x) == 0 {
			sb.WriteString(" {}\n")
			return
		}
		if inline {
			sb.WriteString("\n")
		}
		keys := make([]string, 0, len(x))
		for k := range x {
			keys = append(keys, k)
		}
		sort.Strings(keys)
		for _, k := range keys {
			sb.WriteString(pad)
			sb.WriteString(yamlString(k))
			sb.WriteString(":")
			yamlNode(sb, x[k], indent+1, true)
		}
	case []any:
		if len(x) == 0 {
			sb.WriteString(" []\n")
			return
		}
		if inline {
			sb.WriteString("\n")
		}
		for _, e := range x {
			sb.WriteString(pad)
			sb.WriteString("-")
			switch e.(type) {
			case map[string]any, []any:
				// nested collection under a sequence entry: put it on following lines
				if isEmpty(e) {
					yamlNode(sb, e, indent+1, true)
				} else {
					sb.WriteString("\n")
					yamlNode(sb, e, indent+1, false)
				}
			default:
				yamlNode(sb, e, indent+1, true)
			}
		}
	default:
		sb.WriteString(" ")
		sb.WriteString(yamlScalar(v))
		sb.WriteString("\n")
	}
}

func yamlScalar(v any) string {
	if x, ok := v.(string); ok {
		return yamlString(x)
	}
	return jsonScalar(v)
}

func isEmpty(v any) bool {
	switch x := v.(type) {
	case map[string]any:
		return len(x) == 0
	case []any:
		return len(x) == 0
	}
	return false
}

// orderInsensitive: the lists property C12 names (parameter and enum lists).
var orderInsensitive = map[string]bool{"parameters": true, "enum": true}

// Shuffled renders JSON with object keys in a seed-determined order and, when
// lists is true, with the order-insensitive lists permuted as well.
func Shuffled(v any, seed uint64, lists bool) []byte {
	l := lcg(seed*2 + 1)
	var sb bytes.Buffer
	shuffleNode(&sb, v, &l, lists, "")
	return sb.Bytes()
}

func shuffleNode(sb *bytes.Buffer, v any, l *lcg, lists bool, key string) {
	switch x := v.(type) {
	case map[string]any:
		keys := make([]string, 0, len(x))
		for k := range x {
			keys = append(keys, k)
		}
		sort.Strings(keys)
		p := l.perm(len(keys))
		sb.WriteString("{")
		for i, pi := range p {
			if i > 0 {
				sb.WriteString(",")
			}
			sb.WriteString(jsonString(keys[pi]))
			sb.WriteString(":")
			shuffleNode(sb, x[keys[pi]], l, lists, keys[pi])
		}
		sb.WriteString("}")
	case []any:
		idx := make([]int, len(x))
		for i := range idx {
			idx[i] = i
		}
		if lists && orderInsensitive[key] {
			idx = l.perm(len(x))
		}
		sb.WriteString("[")
		for i, pi := range idx {
			if i > 0 {
				sb.WriteString(",")
			}
			shuffleNode(sb, x[pi], l, lists, "")
		}
		sb.WriteString("]")
	default:
		sb.WriteString(jsonScalar(v))
	}
}

// Pretty renders indented JSON.
func Pretty(v any) string {
	b, err := json.MarshalIndent(v, "", "  ")
	if err != nil {
		return fmt.Sprint(v)
	}
	return string(b)
}
