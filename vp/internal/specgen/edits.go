package specgen

import (
	"fmt"
	"strings"

	"pgregory.net/rapid"
)

// EditKinds is the catalogue of elementary random edits (additive, removing,
// widening, narrowing, direction-less). Each returns false if not applicable.
var EditKinds = []string{
	"add-endpoint", "remove-endpoint", "add-method", "remove-method",
	"add-optional-param", "add-required-param", "remove-param", "toggle-param-required",
	"param-constraint", "param-type", "param-in", "param-collection-format", "param-default", "param-example",
	"description", "op-tag", "extension", "global-media", "op-media", "scheme", "host-basepath",
	"add-property", "remove-property", "toggle-property-required", "schema-constraint", "schema-type", "ref-retarget",
	"add-response", "remove-response", "response-header", "enum-value", "add-definition", "remove-definition",
	"param-items-constraint", "schema-description", "header-constraint", "body-required", "response-schema",
	"param-constraint-multi", "schema-constraint-multi", "numeric-bounds-rewrite",
}

func pick[T any](t *rapid.T, label string, xs []T) (T, bool) {
	var zero T
	if len(xs) == 0 {
		return zero, false
	}
	return xs[rapid.IntRange(0, len(xs)-1).Draw(t, label)], true
}

// RandomEdit applies one random elementary edit and returns its kind ("" if
// nothing applicable was found after a few attempts).
func RandomEdit(t *rapid.T, label string, doc J) string {
	for try := 0; try < 6; try++ {
		k := rapid.SampledFrom(EditKinds).Draw(t, fmt.Sprintf("%s_kind%d", label, try))
		if ApplyEdit(t, fmt.Sprintf("%s_%d", label, try), doc, k) {
			return k
		}
	}
	return ""
}

func simpleParams(doc J) []ParamSite {
	var out []ParamSite
	for _, op := range Ops(doc) {
		for _, p := range EffectiveParams(op) {
			if p.P["in"] != "body" {
				out = append(out, p)
			}
		}
	}
	return out
}

func removeAt(l A, i int) A {
	out := make(A, 0, len(l)-1)
	out = append(out, l[:i]...)
	return append(out, l[i+1:]...)
}

// numeric helpers on a constraint-bearing object
func bump(s J, key string, delta float64) {
	if v, ok := num(s[key]); ok {
		s[key] = v + delta
	}
}

// MutateConstraint changes one validation keyword of a primitive/array
// schema object; returns a description or "".
func MutateConstraint(t *rapid.T, label string, s J) string {
	var opts []string
	switch s["type"] {
	case "string":
		if s["format"] != nil && s["format"] != "" {
			return ""
		}
		opts = []string{"minLength", "maxLength", "pattern", "enum"}
	case "integer", "number":
		opts = []string{"minimum", "maximum", "exclusiveMinimum", "exclusiveMaximum", "multipleOf", "enum"}
	case "array":
		opts = []string{"minItems", "maxItems", "uniqueItems"}
	default:
		return ""
	}
	k := rapid.SampledFrom(opts).Draw(t, label+"_ck")
	_, has := s[k]
	switch k {
	case "minLength", "minItems":
		if has {
			switch rapid.IntRange(0, 2).Draw(t, label+"_dir") {
			case 0:
				delete(s, k)
			case 1:
				bump(s, k, 1)
				mk := "max" + k[3:]
				if mx, ok := num(s[mk]); ok {
					if mn, _ := num(s[k]); mn > mx {
						s[mk] = mn
					}
				}
			default:
				if v, _ := num(s[k]); v > 0 {
					bump(s, k, -1)
				} else {
					delete(s, k)
				}
			}
		} else {
			s[k] = 1
			mk := "max" + k[3:]
			if mx, ok := num(s[mk]); ok && mx < 1 {
				s[mk] = 1
			}
		}
	case "maxLength", "maxItems":
		if has {
			switch rapid.IntRange(0, 2).Draw(t, label+"_dir") {
			case 0:
				delete(s, k)
			case 1:
				bump(s, k, 2)
			default:
				mn, _ := num(s["min"+k[3:]])
				if v, _ := num(s[k]); v > mn && v > 1 {
					bump(s, k, -1)
				} else {
					bump(s, k, 1)
				}
			}
		} else {
			mn, _ := num(s["min"+k[3:]])
			s[k] = mn + 6
		}
		if s["pattern"] != nil {
			// keep pattern/length combinations satisfiable: drop the pattern
			delete(s, "pattern")
		}
	case "pattern":
		if has && rapid.Bool().Draw(t, label+"_pdel") {
			delete(s, k)
		} else {
			p := rapid.SampledFrom(Patterns).Draw(t, label+"_pat")
			s[k] = p.Re
			delete(s, "minLength")
			delete(s, "maxLength")
			delete(s, "enum")
		}
	case "enum":
		if e, ok := s["enum"].(A); ok && len(e) > 0 {
			switch rapid.IntRange(0, 2).Draw(t, label+"_edir") {
			case 0:
				if len(e) > 1 {
					s["enum"] = removeAt(e, rapid.IntRange(0, len(e)-1).Draw(t, label+"_ei"))
				} else {
					delete(s, "enum")
				}
			case 1:
				delete(s, "enum")
			default:
				var nv any = "zzz-new"
				if s["type"] != "string" {
					nv = 97
				}
				s["enum"] = append(append(A{}, e...), nv)
			}
		} else {
			c := J{"type": s["type"]}
			for _, kk := range []string{"minimum", "maximum", "exclusiveMinimum", "exclusiveMaximum", "multipleOf", "minLength", "maxLength", "pattern", "format"} {
				if v, ok := s[kk]; ok {
					c[kk] = v
				}
			}
			v, ok := ValidSimple(t, label+"_ev", c)
			if !ok {
				return ""
			}
			s["enum"] = A{v}
		}
		delete(s, "default")
		delete(s, "example")
	case "minimum":
		if has {
			switch rapid.IntRange(0, 2).Draw(t, label+"_dir") {
			case 0:
				delete(s, k)
				delete(s, "exclusiveMinimum")
			case 1:
				bump(s, k, 1)
				if mx, ok := num(s["maximum"]); ok {
					if mn, _ := num(s[k]); mn+3 > mx {
						s["maximum"] = mn + 4
					}
				}
			default:
				bump(s, k, -2)
			}
		} else {
			mx, ok := num(s["maximum"])
			if ok {
				s[k] = mx - 10
			} else {
				s[k] = -5
			}
		}
	case "maximum":
		if has {
			switch rapid.IntRange(0, 2).Draw(t, label+"_dir") {
			case 0:
				delete(s, k)
				delete(s, "exclusiveMaximum")
			case 1:
				bump(s, k, 3)
			default:
				mn, ok := num(s["minimum"])
				if v, _ := num(s[k]); !ok || v-1 > mn+3 {
					bump(s, k, -1)
				} else {
					bump(s, k, 2)
				}
			}
		} else {
			mn, ok := num(s["minimum"])
			if ok {
				s[k] = mn + 10
			} else {
				s[k] = 50
			}
		}
	case "exclusiveMinimum":
		if s["minimum"] == nil {
			return ""
		}
		if truthy(s[k]) {
			delete(s, k)
		} else {
			s[k] = true
		}
	case "exclusiveMaximum":
		if s["maximum"] == nil {
			return ""
		}
		if truthy(s[k]) {
			delete(s, k)
		} else {
			s[k] = true
		}
	case "multipleOf":
		if has {
			if rapid.Bool().Draw(t, label+"_mdel") {
				delete(s, k)
			} else {
				s[k] = 7
			}
		} else {
			s[k] = 2
		}
		delete(s, "enum")
	case "uniqueItems":
		if truthy(s[k]) {
			delete(s, k)
		} else {
			s[k] = true
		}
	}
	// defaults/examples may no longer validate
	delete(s, "default")
	delete(s, "example")
	return k
}

func newSimpleType(t *rapid.T, label string, s J) bool {
	old := str(s["type"])
	if old == "file" {
		return false
	}
	for _, k := range []string{"format", "items", "collectionFormat", "minimum", "maximum", "exclusiveMinimum", "exclusiveMaximum", "multipleOf", "minLength", "maxLength", "pattern", "enum", "minItems", "maxItems", "uniqueItems", "default", "example"} {
		if k == "format" && rapid.Bool().Draw(t, label+"_fmtonly") && (old == "integer" || old == "number") {
			// format-only change
			cur := str(s["format"])
			var choices []string
			if old == "integer" {
				choices = []string{"", "int32", "int64"}
			} else {
				choices = []string{"", "float", "double"}
			}
			var alt []string
			for _, c := range choices {
				if c != cur {
					alt = append(alt, c)
				}
			}
			nf := rapid.SampledFrom(alt).Draw(t, label+"_nfmt")
			if nf == "" {
				delete(s, "format")
			} else {
				s["format"] = nf
			}
			delete(s, "default")
			delete(s, "example")
			return true
		}
		delete(s, k)
	}
	var alt []string
	for _, c := range []string{"string", "integer", "number", "boolean"} {
		if c != old {
			alt = append(alt, c)
		}
	}
	s["type"] = rapid.SampledFrom(alt).Draw(t, label+"_ntype")
	if s["type"] == "string" && rapid.Bool().Draw(t, label+"_nfs") {
		s["format"] = rapid.SampledFrom(basicFormats).Draw(t, label+"_nf")
	}
	return true
}

func schemaSitesOf(doc J, kinds ...string) []SchemaSite {
	var out []SchemaSite
	for _, s := range SchemaSites(doc, false) {
		for _, k := range kinds {
			if s.Kind == k {
				out = append(out, s)
			}
		}
	}
	return out
}

func objectSites(doc J) []SchemaSite {
	var out []SchemaSite
	for _, s := range SchemaSites(doc, false) {
		if _, ok := s.S["properties"].(J); ok {
			out = append(out, s)
		}
	}
	return out
}

func defNames(doc J) []string {
	d, _ := doc["definitions"].(J)
	return sortedKeysJ(d)
}

// ApplyEdit applies the edit kind k at a random applicable site.
func ApplyEdit(t *rapid.T, label string, doc J, k string) bool {
	ops := Ops(doc)
	paths, _ := doc["paths"].(J)
	switch k {
	case "add-endpoint":
		p := "/added" + PlainName(t, label+"_p")
		if paths[p] != nil {
			return false
		}
		paths[p] = J{"get": J{"operationId": "added" + PlainName(t, label+"_id") + fmt.Sprint(len(paths)), "responses": J{"200": J{"description": "ok"}}}}
		return true
	case "remove-endpoint":
		ks := sortedKeysJ(paths)
		if len(ks) < 2 {
			return false
		}
		p, _ := pick(t, label+"_p", ks)
		delete(paths, p)
		return true
	case "add-method":
		op, ok := pick(t, label+"_op", ops)
		if !ok {
			return false
		}
		for _, m := range []string{"get", "put", "delete", "post", "patch"} {
			if op.Item[m] == nil {
				nop := J{"operationId": "added" + m + PlainName(t, label+"_id"), "responses": J{"200": J{"description": "ok"}}}
				// path parameters must be declared
				var ps A
				shared := map[string]bool{}
				for _, sp := range asList(op.Item["parameters"]) {
					if spj, _ := sp.(J); spj != nil && spj["in"] == "path" {
						shared[str(spj["name"])] = true
					}
				}
				for _, seg := range strings.Split(op.Path, "/") {
					if strings.HasPrefix(seg, "{") {
						n := strings.Trim(seg, "{}")
						if !shared[n] {
							ps = append(ps, J{"name": n, "in": "path", "required": true, "type": "string"})
						}
					}
				}
				if len(ps) > 0 {
					nop["parameters"] = ps
				}
				op.Item[m] = nop
				return true
			}
		}
		return false
	case "remove-method":
		op, ok := pick(t, label+"_op", ops)
		if !ok || len(ops) < 2 {
			return false
		}
		delete(op.Item, op.Method)
		n := 0
		for mk := range op.Item {
			if isMethod(mk) {
				n++
			}
		}
		if n == 0 {
			delete(paths, op.Path)
		}
		return true
	case "add-optional-param", "add-required-param":
		op, ok := pick(t, label+"_op", ops)
		if !ok {
			return false
		}
		in := rapid.SampledFrom([]string{"query", "header"}).Draw(t, label+"_in")
		p := Simple(t, label+"_ps", SimpleOpts{In: in, MaxDepth: 1}, 0)
		p["name"] = "added" + PlainName(t, label+"_pn")
		if in == "header" {
			p["name"] = "X-Added-" + PlainName(t, label+"_pn")
		}
		p["in"] = in
		if k == "add-required-param" {
			p["required"] = true
		}
		op.Op["parameters"] = append(asList(op.Op["parameters"]), p)
		return true
	case "remove-param":
		ps := simpleParams(doc)
		var cand []ParamSite
		for _, p := range ps {
			if p.P["in"] != "path" {
				cand = append(cand, p)
			}
		}
		p, ok := pick(t, label+"_p", cand)
		if !ok {
			return false
		}
		l := asList(p.Holder["parameters"])
		if len(l) == 1 {
			delete(p.Holder, "parameters")
		} else {
			p.Holder["parameters"] = removeAt(l, p.Index)
		}
		return true
	case "toggle-param-required":
		var cand []ParamSite
		for _, p := range simpleParams(doc) {
			if p.P["in"] != "path" {
				cand = append(cand, p)
			}
		}
		p, ok := pick(t, label+"_p", cand)
		if !ok {
			return false
		}
		if truthy(p.P["required"]) {
			delete(p.P, "required")
		} else {
			p.P["required"] = true
			delete(p.P, "default")
		}
		return true
	case "param-constraint":
		p, ok := pick(t, label+"_p", simpleParams(doc))
		if !ok {
			return false
		}
		return MutateConstraint(t, label, p.P) != ""
	case "param-constraint-multi":
		// several keywords of the same parameter change in one edit
		p, ok := pick(t, label+"_p", simpleParams(doc))
		if !ok {
			return false
		}
		n := 0
		for i := 0; i < 3; i++ {
			if MutateConstraint(t, fmt.Sprintf("%s_m%d", label, i), p.P) != "" {
				n++
			}
		}
		return n > 0
	case "schema-constraint-multi":
		var cand []SchemaSite
		for _, s := range SchemaSites(doc, false) {
			switch s.S["type"] {
			case "string", "integer", "number", "array":
				if _, tuple := s.S["items"].(A); !tuple {
					cand = append(cand, s)
				}
			}
		}
		s, ok := pick(t, label+"_s", cand)
		if !ok {
			return false
		}
		n := 0
		for i := 0; i < 3; i++ {
			if MutateConstraint(t, fmt.Sprintf("%s_m%d", label, i), s.S) != "" {
				n++
			}
		}
		return n > 0
	case "numeric-bounds-rewrite":
		// the same numeric range written differently or shifted: exclusive <-> inclusive
		// together with a bound change (x < 100  ->  x <= 99)
		var cand []J
		for _, p := range simpleParams(doc) {
			if p.P["type"] == "integer" || p.P["type"] == "number" {
				cand = append(cand, p.P)
			}
		}
		for _, s := range SchemaSites(doc, false) {
			if s.S["type"] == "integer" || s.S["type"] == "number" {
				cand = append(cand, s.S)
			}
		}
		c, ok := pick(t, label+"_c", cand)
		if !ok {
			return false
		}
		delete(c, "enum")
		delete(c, "multipleOf")
		delete(c, "default")
		delete(c, "example")
		for _, side := range []string{"minimum", "maximum"} {
			ex := "exclusive" + strings.Title(side)
			switch rapid.IntRange(0, 4).Draw(t, label+"_"+side) {
			case 0: // leave
			case 1: // toggle exclusivity only
				if c[side] != nil {
					if truthy(c[ex]) {
						delete(c, ex)
					} else {
						c[ex] = true
					}
				}
			case 2: // toggle exclusivity and move the bound
				if c[side] == nil {
					if side == "minimum" {
						c[side] = 0
					} else {
						c[side] = 100
					}
					c[ex] = true
				} else {
					if truthy(c[ex]) {
						delete(c, ex)
					} else {
						c[ex] = true
					}
					d := float64(rapid.SampledFrom([]int{-1, 1}).Draw(t, label+"_d"+side))
					bump(c, side, d)
				}
			case 3: // move the bound only
				if c[side] != nil {
					d := float64(rapid.SampledFrom([]int{-2, -1, 1, 2}).Draw(t, label+"_d"+side))
					bump(c, side, d)
				}
			case 4: // add or remove the bound
				if c[side] != nil {
					delete(c, side)
					delete(c, ex)
				} else if side == "minimum" {
					c[side] = -1000
				} else {
					c[side] = 1000
				}
			}
		}
		mn, okn := num(c["minimum"])
		mx, okx := num(c["maximum"])
		if okn && okx && mn+3 > mx {
			c["maximum"] = mn + 5
		}
		return true
	case "param-items-constraint":
		var cand []J
		for _, p := range simpleParams(doc) {
			it, _ := p.P["items"].(J)
			for it != nil {
				cand = append(cand, it)
				it, _ = it["items"].(J)
			}
		}
		it, ok := pick(t, label+"_it", cand)
		if !ok {
			return false
		}
		return MutateConstraint(t, label, it) != ""
	case "param-type":
		p, ok := pick(t, label+"_p", simpleParams(doc))
		if !ok {
			return false
		}
		return newSimpleType(t, label, p.P)
	case "param-in":
		var cand []ParamSite
		for _, p := range simpleParams(doc) {
			if (p.P["in"] == "query" || p.P["in"] == "header") && p.P["collectionFormat"] != "multi" {
				cand = append(cand, p)
			}
		}
		p, ok := pick(t, label+"_p", cand)
		if !ok {
			return false
		}
		if p.P["in"] == "query" {
			p.P["in"] = "header"
			delete(p.P, "allowEmptyValue")
		} else {
			p.P["in"] = "query"
		}
		return true
	case "param-collection-format":
		var cand []ParamSite
		for _, p := range simpleParams(doc) {
			if p.P["type"] == "array" {
				cand = append(cand, p)
			}
		}
		p, ok := pick(t, label+"_p", cand)
		if !ok {
			return false
		}
		cur := str(p.P["collectionFormat"])
		var alt []string
		for _, c := range []string{"csv", "ssv", "tsv", "pipes"} {
			if c != cur {
				alt = append(alt, c)
			}
		}
		p.P["collectionFormat"] = rapid.SampledFrom(alt).Draw(t, label+"_cf")
		return true
	case "param-default", "param-example":
		key := strings.TrimPrefix(k, "param-")
		var cand []ParamSite
		for _, p := range simpleParams(doc) {
			if p.P["in"] != "path" && p.P["type"] != "file" && (key == "example" || !truthy(p.P["required"])) {
				cand = append(cand, p)
			}
		}
		p, ok := pick(t, label+"_p", cand)
		if !ok {
			return false
		}
		if key == "example" {
			key = "x-example" // `example` is not a parameter keyword in Swagger 2.0; go-openapi keeps it for simple schemas
			key = "example"
		}
		if p.P[key] != nil && rapid.Bool().Draw(t, label+"_del") {
			delete(p.P, key)
			return true
		}
		v, ok := ValidSimple(t, label+"_v", p.P)
		if !ok {
			return false
		}
		p.P[key] = v
		return true
	case "description":
		var cand []J
		for _, op := range ops {
			cand = append(cand, op.Op)
			for _, p := range EffectiveParams(op) {
				cand = append(cand, p.P)
			}
		}
		if info, ok := doc["info"].(J); ok {
			cand = append(cand, info)
		}
		c, ok := pick(t, label+"_c", cand)
		if !ok {
			return false
		}
		mutateText(t, label, c, "description")
		return true
	case "schema-description":
		s, ok := pick(t, label+"_s", SchemaSites(doc, false))
		if !ok || s.S["$ref"] != nil {
			return false
		}
		mutateText(t, label, s.S, "description")
		return true
	case "op-tag":
		op, ok := pick(t, label+"_op", ops)
		if !ok {
			return false
		}
		tags := asList(op.Op["tags"])
		if len(tags) > 0 && rapid.Bool().Draw(t, label+"_del") {
			tags = removeAt(tags, rapid.IntRange(0, len(tags)-1).Draw(t, label+"_ti"))
		} else {
			tags = append(append(A{}, tags...), "tag"+PlainName(t, label+"_tn"))
		}
		if len(tags) == 0 {
			delete(op.Op, "tags")
		} else {
			op.Op["tags"] = tags
		}
		return true
	case "extension":
		var cand []J
		cand = append(cand, doc)
		if info, ok := doc["info"].(J); ok {
			cand = append(cand, info)
		}
		for _, op := range ops {
			cand = append(cand, op.Op, op.Item)
			if r, ok := op.Op["responses"].(J); ok {
				cand = append(cand, r)
				for _, code := range sortedKeysJ(r) {
					if rj, ok := r[code].(J); ok && !strings.HasPrefix(code, "x-") {
						cand = append(cand, rj)
						if s, ok := rj["schema"].(J); ok && s["$ref"] == nil {
							cand = append(cand, s)
						}
						if hs, ok := rj["headers"].(J); ok {
							for _, hn := range sortedKeysJ(hs) {
								if hj, ok := hs[hn].(J); ok {
									cand = append(cand, hj)
								}
							}
						}
					}
				}
			}
			for _, p := range EffectiveParams(op) {
				cand = append(cand, p.P)
			}
		}
		if sd, ok := doc["securityDefinitions"].(J); ok {
			for _, n := range sortedKeysJ(sd) {
				if sj, ok := sd[n].(J); ok {
					cand = append(cand, sj)
				}
			}
		}
		for _, tg := range asList(doc["tags"]) {
			if tj, ok := tg.(J); ok {
				cand = append(cand, tj)
			}
		}
		c, _ := pick(t, label+"_c", cand)
		var exts []string
		for _, kk := range sortedKeysJ(c) {
			if strings.HasPrefix(kk, "x-") {
				exts = append(exts, kk)
			}
		}
		if len(exts) > 0 && rapid.IntRange(0, 2).Draw(t, label+"_mode") > 0 {
			e, _ := pick(t, label+"_e", exts)
			if rapid.Bool().Draw(t, label+"_del") {
				delete(c, e)
			} else {
				c[e] = J{"changed": rapid.IntRange(0, 9).Draw(t, label+"_nv")}
			}
			return true
		}
		c["x-added-"+PlainName(t, label+"_ek")] = rapid.SampledFrom([]any{"v", 1, true, A{"a"}}).Draw(t, label+"_ev")
		return true
	case "global-media", "op-media":
		key := rapid.SampledFrom([]string{"consumes", "produces"}).Draw(t, label+"_key")
		var target J = doc
		if k == "op-media" {
			var cand []OpSite
			for _, op := range ops {
				form := false
				for _, p := range EffectiveParams(op) {
					if p.P["in"] == "formData" {
						form = true
					}
				}
				if !form {
					cand = append(cand, op)
				}
			}
			op, ok := pick(t, label+"_op", cand)
			if !ok {
				return false
			}
			target = op.Op
		}
		return mutateStringSet(t, label, target, key, mediaTypes[:4])
	case "scheme":
		return mutateStringSet(t, label, doc, "schemes", []string{"http", "https", "ws", "wss"})
	case "host-basepath":
		if rapid.Bool().Draw(t, label+"_host") {
			if doc["host"] == "changed.example.com" {
				delete(doc, "host")
			} else {
				doc["host"] = "changed.example.com"
			}
		} else {
			if doc["basePath"] == "/changed" {
				delete(doc, "basePath")
			} else {
				doc["basePath"] = "/changed"
			}
		}
		return true
	case "add-property":
		s, ok := pick(t, label+"_s", objectSites(doc))
		if !ok {
			return false
		}
		props := s.S["properties"].(J)
		n := "added" + PlainName(t, label+"_pn")
		if props[n] != nil {
			return false
		}
		props[n] = Schema(t, label+"_ps", &Opts{MaxDepth: 1, Refs: defNames(doc)}, 1)
		if rapid.Bool().Draw(t, label+"_req") {
			s.S["required"] = append(asList(s.S["required"]), n)
		}
		return true
	case "remove-property":
		s, ok := pick(t, label+"_s", objectSites(doc))
		if !ok {
			return false
		}
		props := s.S["properties"].(J)
		pn, ok := pick(t, label+"_pn", sortedKeysJ(props))
		if !ok {
			return false
		}
		delete(props, pn)
		if len(props) == 0 {
			delete(s.S, "properties")
		}
		var req A
		for _, r := range asList(s.S["required"]) {
			if r != pn {
				req = append(req, r)
			}
		}
		if len(req) == 0 {
			delete(s.S, "required")
		} else {
			s.S["required"] = req
		}
		return true
	case "toggle-property-required":
		s, ok := pick(t, label+"_s", objectSites(doc))
		if !ok {
			return false
		}
		props := s.S["properties"].(J)
		pn, ok := pick(t, label+"_pn", sortedKeysJ(props))
		if !ok {
			return false
		}
		var req A
		was := false
		for _, r := range asList(s.S["required"]) {
			if r == pn {
				was = true
			} else {
				req = append(req, r)
			}
		}
		if !was {
			req = append(req, pn)
		}
		if len(req) == 0 {
			delete(s.S, "required")
		} else {
			s.S["required"] = req
		}
		return true
	case "schema-constraint":
		var cand []SchemaSite
		for _, s := range SchemaSites(doc, false) {
			switch s.S["type"] {
			case "string", "integer", "number", "array":
				cand = append(cand, s)
			}
		}
		s, ok := pick(t, label+"_s", cand)
		if !ok {
			return false
		}
		if _, tuple := s.S["items"].(A); tuple {
			return false
		}
		return MutateConstraint(t, label, s.S) != ""
	case "schema-type":
		var cand []SchemaSite
		for _, s := range SchemaSites(doc, false) {
			if isPrim(s.S) {
				cand = append(cand, s)
			}
		}
		s, ok := pick(t, label+"_s", cand)
		if !ok {
			return false
		}
		return newSimpleType(t, label, s.S)
	case "ref-retarget":
		dn := defNames(doc)
		var cand []SchemaSite
		for _, s := range SchemaSites(doc, false) {
			if s.S["$ref"] != nil && len(s.Via) > 0 && !strings.HasPrefix(s.Via[len(s.Via)-1], "allOf") {
				cand = append(cand, s)
			}
		}
		s, ok := pick(t, label+"_s", cand)
		if !ok || len(dn) < 2 {
			return false
		}
		cur := strings.TrimPrefix(str(s.S["$ref"]), "#/definitions/")
		var alt []string
		for _, d := range dn {
			if d != cur {
				alt = append(alt, d)
			}
		}
		if rapid.IntRange(0, 3).Draw(t, label+"_toprim") == 0 {
			delete(s.S, "$ref")
			s.S["type"] = "string"
			return true
		}
		s.S["$ref"] = "#/definitions/" + rapid.SampledFrom(alt).Draw(t, label+"_nd")
		return true
	case "add-response":
		op, ok := pick(t, label+"_op", ops)
		if !ok {
			return false
		}
		r, _ := op.Op["responses"].(J)
		for _, code := range []string{"202", "401", "403", "409", "503"} {
			if r[code] == nil {
				nr := J{"description": "added"}
				if rapid.Bool().Draw(t, label+"_sch") {
					nr["schema"] = J{"type": "string"}
				}
				r[code] = nr
				return true
			}
		}
		return false
	case "remove-response":
		op, ok := pick(t, label+"_op", ops)
		if !ok {
			return false
		}
		r, _ := op.Op["responses"].(J)
		var codes []string
		for _, c := range sortedKeysJ(r) {
			if !strings.HasPrefix(c, "x-") {
				codes = append(codes, c)
			}
		}
		if len(codes) < 2 {
			return false
		}
		c, _ := pick(t, label+"_c", codes)
		delete(r, c)
		return true
	case "response-schema":
		op, ok := pick(t, label+"_op", ops)
		if !ok {
			return false
		}
		r, _ := op.Op["responses"].(J)
		var codes []string
		for _, c := range sortedKeysJ(r) {
			if !strings.HasPrefix(c, "x-") && c != "204" {
				codes = append(codes, c)
			}
		}
		c, ok := pick(t, label+"_c", codes)
		if !ok {
			return false
		}
		rj, _ := r[c].(J)
		if rj["schema"] != nil {
			delete(rj, "schema")
		} else {
			rj["schema"] = J{"type": "object", "properties": J{"added": J{"type": "string"}}}
		}
		return true
	case "response-header", "header-constraint":
		type hsite struct {
			r J
		}
		var cand []J
		for _, op := range ops {
			r, _ := op.Op["responses"].(J)
			for _, c := range sortedKeysJ(r) {
				if rj, ok := r[c].(J); ok && !strings.HasPrefix(c, "x-") {
					cand = append(cand, rj)
				}
			}
		}
		rj, ok := pick(t, label+"_r", cand)
		if !ok {
			return false
		}
		hs, _ := rj["headers"].(J)
		if k == "header-constraint" {
			hn, ok := pick(t, label+"_hn", sortedKeysJ(hs))
			if !ok {
				return false
			}
			return MutateConstraint(t, label, hs[hn].(J)) != ""
		}
		if len(hs) > 0 && rapid.Bool().Draw(t, label+"_del") {
			hn, _ := pick(t, label+"_hn", sortedKeysJ(hs))
			if rapid.Bool().Draw(t, label+"_chg") {
				return newSimpleType(t, label, hs[hn].(J))
			}
			delete(hs, hn)
			if len(hs) == 0 {
				delete(rj, "headers")
			}
			return true
		}
		if hs == nil {
			hs = J{}
			rj["headers"] = hs
		}
		hs["X-Added-"+PlainName(t, label+"_hn")] = J{"type": rapid.SampledFrom([]string{"string", "integer"}).Draw(t, label+"_ht")}
		return true
	case "enum-value":
		var cand []J
		for _, p := range simpleParams(doc) {
			if e, ok := p.P["enum"].(A); ok && len(e) > 0 {
				cand = append(cand, p.P)
			}
		}
		for _, s := range SchemaSites(doc, false) {
			if e, ok := s.S["enum"].(A); ok && len(e) > 0 {
				cand = append(cand, s.S)
			}
		}
		c, ok := pick(t, label+"_c", cand)
		if !ok {
			return false
		}
		e := c["enum"].(A)
		if len(e) > 1 && rapid.Bool().Draw(t, label+"_del") {
			c["enum"] = removeAt(e, rapid.IntRange(0, len(e)-1).Draw(t, label+"_ei"))
		} else {
			var nv any = "zzz-new"
			if c["type"] != "string" {
				nv = 97
			}
			for _, x := range e {
				if fmt.Sprint(x) == fmt.Sprint(nv) {
					return false
				}
			}
			c["enum"] = append(append(A{}, e...), nv)
		}
		delete(c, "default")
		delete(c, "example")
		return true
	case "add-definition":
		defs, _ := doc["definitions"].(J)
		if defs == nil {
			defs = J{}
			doc["definitions"] = defs
		}
		n := "Added" + PlainName(t, label+"_dn")
		if defs[n] != nil {
			return false
		}
		defs[n] = J{"type": "object", "properties": J{"x": J{"type": "integer"}}}
		return true
	case "remove-definition":
		defs, _ := doc["definitions"].(J)
		used := string(JSONBytes(doc))
		var cand []string
		for _, n := range sortedKeysJ(defs) {
			if !strings.Contains(used, `"#/definitions/`+n+`"`) {
				cand = append(cand, n)
			}
		}
		n, ok := pick(t, label+"_dn", cand)
		if !ok {
			return false
		}
		delete(defs, n)
		return true
	case "body-required":
		var cand []ParamSite
		for _, op := range ops {
			for _, p := range EffectiveParams(op) {
				if p.P["in"] == "body" {
					cand = append(cand, p)
				}
			}
		}
		p, ok := pick(t, label+"_p", cand)
		if !ok {
			return false
		}
		if truthy(p.P["required"]) {
			delete(p.P, "required")
		} else {
			p.P["required"] = true
		}
		return true
	}
	return false
}

func mutateText(t *rapid.T, label string, c J, key string) {
	cur, has := c[key].(string)
	if has && cur != "" && rapid.Bool().Draw(t, label+"_del") {
		delete(c, key)
		return
	}
	nv := rapid.SampledFrom([]string{"changed text", "other words", "describe, with -> arrow", "quote \" here"}).Draw(t, label+"_nv")
	if nv == cur {
		nv += "!"
	}
	c[key] = nv
}

func mutateStringSet(t *rapid.T, label string, target J, key string, pool []string) bool {
	cur := asList(target[key])
	if len(cur) > 0 && rapid.Bool().Draw(t, label+"_del") {
		cur = removeAt(cur, rapid.IntRange(0, len(cur)-1).Draw(t, label+"_i"))
		if len(cur) == 0 {
			delete(target, key)
		} else {
			target[key] = cur
		}
		return true
	}
	have := map[string]bool{}
	for _, c := range cur {
		have[str(c)] = true
	}
	for _, p := range pool {
		if !have[p] {
			target[key] = append(append(A{}, cur...), p)
			return true
		}
	}
	return false
}
