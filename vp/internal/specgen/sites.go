package specgen

import (
	"sort"
	"strings"
)

// OpSite is one operation of a document tree.
type OpSite struct {
	Path, Method string
	Item, Op     J
}

func sortedKeysJ(m J) []string {
	out := make([]string, 0, len(m))
	for k := range m {
		out = append(out, k)
	}
	sort.Strings(out)
	return out
}

func isMethod(k string) bool {
	switch k {
	case "get", "put", "post", "delete", "options", "head", "patch":
		return true
	}
	return false
}

// Ops lists operations in deterministic order.
func Ops(doc J) []OpSite {
	var out []OpSite
	paths, _ := doc["paths"].(J)
	for _, p := range sortedKeysJ(paths) {
		item, _ := paths[p].(J)
		for _, m := range sortedKeysJ(item) {
			if !isMethod(m) {
				continue
			}
			op, _ := item[m].(J)
			if op != nil {
				out = append(out, OpSite{Path: p, Method: m, Item: item, Op: op})
			}
		}
	}
	return out
}

// ParamSite is a parameter as seen by an operation.
type ParamSite struct {
	Op     OpSite
	P      J
	Shared bool // declared at path level (and not overridden)
	Holder J    // the object holding the "parameters" list
	Index  int
}

func asList(v any) A {
	l, _ := v.(A)
	return l
}

// EffectiveParams returns the parameters applying to op (operation-level ones
// override path-level ones with the same name+in).
func EffectiveParams(op OpSite) []ParamSite {
	var out []ParamSite
	seen := map[string]bool{}
	for i, p := range asList(op.Op["parameters"]) {
		pj, _ := p.(J)
		if pj == nil || pj["$ref"] != nil {
			continue
		}
		seen[str(pj["in"])+":"+str(pj["name"])] = true
		out = append(out, ParamSite{Op: op, P: pj, Holder: op.Op, Index: i})
	}
	for i, p := range asList(op.Item["parameters"]) {
		pj, _ := p.(J)
		if pj == nil || pj["$ref"] != nil {
			continue
		}
		if seen[str(pj["in"])+":"+str(pj["name"])] {
			continue
		}
		out = append(out, ParamSite{Op: op, P: pj, Shared: true, Holder: op.Item, Index: i})
	}
	return out
}

func str(v any) string { s, _ := v.(string); return s }

// SchemaSite is a schema position reachable from a request body, a response
// or a definition.
type SchemaSite struct {
	S      J
	Kind   string   // request | response | definition
	Op     *OpSite  // nil for definitions
	Code   string   // response code
	Via    []string // chain of steps: prop:<name>, items, allOf:<i>, ref:<Def>, addl, tuple:<i>
	Parent J        // object schema holding S as a property (nil otherwise)
	Prop   string   // property name in Parent
	Param  J        // body parameter (request sites)
	// AllOfOnly: some allOf step on the way came from a schema without own properties
	AllOfOnly bool
}

func (s SchemaSite) Depth() int { return len(s.Via) }

func (s SchemaSite) ViaClass() string {
	var c []string
	for _, v := range s.Via {
		if i := strings.Index(v, ":"); i >= 0 {
			v = v[:i]
		}
		c = append(c, v)
	}
	if len(c) == 0 {
		return "top"
	}
	return strings.Join(c, ">")
}

// walkSchema enumerates s and its sub-schemas. followRefs: descend into
// definitions through $ref (each definition at most once per walk).
func walkSchema(root J, s J, base SchemaSite, followRefs bool, seen map[string]bool, out *[]SchemaSite, depth int) {
	if s == nil || depth > 8 {
		return
	}
	site := base
	site.S = s
	*out = append(*out, site)
	if r, ok := s["$ref"].(string); ok {
		if !followRefs {
			return
		}
		name := strings.TrimPrefix(r, "#/definitions/")
		if seen[name] {
			return
		}
		seen[name] = true
		defs, _ := root["definitions"].(J)
		t, _ := defs[name].(J)
		if t == nil {
			return
		}
		nb := base
		nb.Via = append(append([]string{}, base.Via...), "ref:"+name)
		nb.Parent, nb.Prop = nil, ""
		walkSchemaChildren(root, t, nb, followRefs, seen, out, depth+1)
		return
	}
	walkSchemaChildren(root, s, base, followRefs, seen, out, depth)
}

func walkSchemaChildren(root J, s J, base SchemaSite, followRefs bool, seen map[string]bool, out *[]SchemaSite, depth int) {
	via := func(step string) []string { return append(append([]string{}, base.Via...), step) }
	if props, ok := s["properties"].(J); ok {
		for _, pn := range sortedKeysJ(props) {
			ps, _ := props[pn].(J)
			nb := base
			nb.Via = via("prop:" + pn)
			nb.Parent, nb.Prop = s, pn
			walkSchema(root, ps, nb, followRefs, seen, out, depth+1)
		}
	}
	switch it := s["items"].(type) {
	case J:
		nb := base
		nb.Via = via("items")
		nb.Parent, nb.Prop = nil, ""
		walkSchema(root, it, nb, followRefs, seen, out, depth+1)
	case A:
		for i, e := range it {
			ej, _ := e.(J)
			nb := base
			nb.Via = via("tuple:" + itoa(i))
			nb.Parent, nb.Prop = nil, ""
			walkSchema(root, ej, nb, followRefs, seen, out, depth+1)
		}
	}
	if ao, ok := s["allOf"].(A); ok {
		for i, e := range ao {
			ej, _ := e.(J)
			nb := base
			nb.Via = via("allOf:" + itoa(i))
			nb.Parent, nb.Prop = nil, ""
			if _, own := s["properties"].(J); !own {
				nb.AllOfOnly = true
			}
			walkSchema(root, ej, nb, followRefs, seen, out, depth+1)
		}
	}
	if ap, ok := s["additionalProperties"].(J); ok {
		nb := base
		nb.Via = via("addl")
		nb.Parent, nb.Prop = nil, ""
		walkSchema(root, ap, nb, followRefs, seen, out, depth+1)
	}
}

func itoa(i int) string {
	if i == 0 {
		return "0"
	}
	var b []byte
	for i > 0 {
		b = append([]byte{byte('0' + i%10)}, b...)
		i /= 10
	}
	return string(b)
}

// SchemaSites enumerates schema positions of the document. followRefs makes
// request/response walks descend into the definitions they reference.
func SchemaSites(doc J, followRefs bool) []SchemaSite {
	var out []SchemaSite
	for _, op := range Ops(doc) {
		op := op
		for _, p := range EffectiveParams(op) {
			if p.P["in"] == "body" {
				if s, ok := p.P["schema"].(J); ok {
					walkSchema(doc, s, SchemaSite{Kind: "request", Op: &op, Param: p.P}, followRefs, map[string]bool{}, &out, 0)
				}
			}
		}
		resps, _ := op.Op["responses"].(J)
		for _, code := range sortedKeysJ(resps) {
			r, _ := resps[code].(J)
			if r == nil {
				continue
			}
			if s, ok := r["schema"].(J); ok {
				walkSchema(doc, s, SchemaSite{Kind: "response", Op: &op, Code: code}, followRefs, map[string]bool{}, &out, 0)
			}
		}
	}
	defs, _ := doc["definitions"].(J)
	for _, dn := range sortedKeysJ(defs) {
		d, _ := defs[dn].(J)
		walkSchema(doc, d, SchemaSite{Kind: "definition", Via: []string{"def:" + dn}}, false, map[string]bool{}, &out, 0)
	}
	return out
}

// AllOfCycle reports a definition whose allOf ancestry is circular (such
// documents are invalid, and go-openapi/validate overflows its stack on them).
func AllOfCycle(doc J) string {
	defs, _ := doc["definitions"].(J)
	parents := map[string][]string{}
	var collect func(s J, into *[]string, depth int)
	collect = func(s J, into *[]string, depth int) {
		if s == nil || depth > 20 {
			return
		}
		if r, ok := s["$ref"].(string); ok {
			*into = append(*into, strings.TrimPrefix(r, "#/definitions/"))
			return
		}
		for _, m := range asList(s["allOf"]) {
			mj, _ := m.(J)
			collect(mj, into, depth+1)
		}
	}
	for n, d := range defs {
		dj, _ := d.(J)
		var ps []string
		if dj != nil {
			if _, ok := dj["$ref"]; ok {
				collect(dj, &ps, 0)
			}
			for _, m := range asList(dj["allOf"]) {
				mj, _ := m.(J)
				collect(mj, &ps, 0)
			}
		}
		parents[n] = ps
	}
	state := map[string]int{}
	var visit func(n string) bool
	visit = func(n string) bool {
		switch state[n] {
		case 1:
			return true
		case 2:
			return false
		}
		state[n] = 1
		for _, p := range parents[n] {
			if visit(p) {
				return true
			}
		}
		state[n] = 2
		return false
	}
	for _, n := range sortedKeysJ(defs) {
		if visit(n) {
			return n
		}
	}
	return ""
}


// BreakRecursiveContainers replaces, in every definition, a $ref to the definition itself that is reached
// without passing through a property (array of itself, map of itself) by a string schema, and reports how
// many it replaced. go-openapi/analysis and the generator's type resolver recurse without end on such
// definitions (listed known findings); checks that run these in process keep them out by construction.
func BreakRecursiveContainers(doc J) int {
	defs, _ := doc["definitions"].(J)
	n := 0
	for _, name := range sortedKeysJ(defs) {
		self := "#/definitions/" + name
		var rec func(v any)
		rec = func(v any) {
			switch x := v.(type) {
			case J:
				if x["$ref"] == self {
					delete(x, "$ref")
					x["type"] = "string"
					n++
				}
				for _, k := range sortedKeysJ(x) {
					if k != "properties" {
						rec(x[k])
					}
				}
			case A:
				for _, e := range x {
					rec(e)
				}
			}
		}
		rec(defs[name])
	}
	return n
}
