package specgen

import (
	"fmt"
	"math"
	"strings"

	"pgregory.net/rapid"
)

func num(v any) (float64, bool) {
	switch x := v.(type) {
	case int:
		return float64(x), true
	case int64:
		return float64(x), true
	case float64:
		return x, true
	case float32:
		return float64(x), true
	}
	return 0, false
}

func truthy(v any) bool { b, _ := v.(bool); return b }

// ValidSimple builds a value valid for a primitive/array schema (both simple
// schemas and JSON-schema primitives). ok=false if it does not know how.
func ValidSimple(t *rapid.T, label string, s J) (any, bool) {
	if e, ok := s["enum"].(A); ok && len(e) > 0 {
		return rapid.SampledFrom(e).Draw(t, label+"_enumpick"), true
	}
	switch s["type"] {
	case "string":
		if f, ok := s["format"].(string); ok && f != "" {
			ex, ok := StringFormats[f]
			if !ok {
				return nil, false
			}
			return rapid.SampledFrom(ex).Draw(t, label+"_fv"), true
		}
		mn, mx := 0, -1
		if v, ok := num(s["minLength"]); ok {
			mn = int(v)
		}
		if v, ok := num(s["maxLength"]); ok {
			mx = int(v)
		}
		if p, ok := s["pattern"].(string); ok {
			pat := PatByRe(p)
			if pat == nil {
				return nil, false
			}
			if pat.Min > mn {
				mn = pat.Min
			}
			if pat.Max >= 0 && (mx < 0 || pat.Max < mx) {
				mx = pat.Max
			}
			if mx >= 0 && mn > mx {
				return nil, false
			}
			hi := mx
			if hi < 0 {
				hi = mn + 4
			}
			return pat.Make(rapid.IntRange(mn, hi).Draw(t, label+"_plen")), true
		}
		hi := mx
		if hi < 0 {
			hi = mn + 5
		}
		if mn > hi {
			return nil, false
		}
		n := rapid.IntRange(mn, hi).Draw(t, label+"_slen")
		alphabet := []string{"a", "b", "Z", "0", "é", "-", "_"}
		var sb strings.Builder
		for i := 0; i < n; i++ {
			sb.WriteString(rapid.SampledFrom(alphabet).Draw(t, fmt.Sprintf("%s_c%d", label, i)))
		}
		return sb.String(), true
	case "integer", "number":
		integer := s["type"] == "integer"
		lo, hi := -50.0, 50.0
		if v, ok := num(s["minimum"]); ok {
			lo = v
			if truthy(s["exclusiveMinimum"]) {
				if integer {
					lo = v + 1
				} else {
					lo = v + 0.5
				}
			}
			if _, ok := num(s["maximum"]); !ok {
				hi = lo + 40
			}
		}
		if v, ok := num(s["maximum"]); ok {
			hi = v
			if truthy(s["exclusiveMaximum"]) {
				if integer {
					hi = v - 1
				} else {
					hi = v - 0.5
				}
			}
			if _, ok := num(s["minimum"]); !ok {
				lo = hi - 40
			}
		}
		if lo > hi {
			return nil, false
		}
		if m, ok := num(s["multipleOf"]); ok && m > 0 {
			klo := int(math.Ceil(lo / m))
			khi := int(math.Floor(hi / m))
			if klo > khi {
				return nil, false
			}
			k := rapid.IntRange(klo, khi).Draw(t, label+"_mk")
			v := float64(k) * m
			if integer {
				return int(v), true
			}
			return v, true
		}
		if integer {
			return rapid.IntRange(int(math.Ceil(lo)), int(math.Floor(hi))).Draw(t, label+"_iv"), true
		}
		// dyadic rationals: exact in float32 and float64
		k := rapid.IntRange(int(math.Ceil(lo*4)), int(math.Floor(hi*4))).Draw(t, label+"_nv")
		return float64(k) / 4, true
	case "boolean":
		return rapid.Bool().Draw(t, label+"_bv"), true
	case "array":
		items, ok := s["items"].(J)
		if !ok {
			return nil, false
		}
		mn, mx := 0, -1
		if v, ok := num(s["minItems"]); ok {
			mn = int(v)
		}
		if v, ok := num(s["maxItems"]); ok {
			mx = int(v)
		}
		hi := mx
		if hi < 0 {
			hi = mn + 3
		}
		if mn > hi {
			return nil, false
		}
		n := rapid.IntRange(mn, hi).Draw(t, label+"_alen")
		out := A{}
		seen := map[string]bool{}
		for i := 0; i < n; i++ {
			var v any
			okv := false
			for try := 0; try < 6; try++ {
				v, okv = ValidSimple(t, fmt.Sprintf("%s_a%d_%d", label, i, try), items)
				if !okv {
					return nil, false
				}
				if !truthy(s["uniqueItems"]) || !seen[fmt.Sprintf("%#v", v)] {
					break
				}
				okv = false
			}
			if !okv {
				if len(out) >= mn {
					break
				}
				return nil, false
			}
			seen[fmt.Sprintf("%#v", v)] = true
			out = append(out, v)
		}
		return out, true
	}
	return nil, false
}

// Resolve follows a local $ref (#/definitions/X) inside root.
func Resolve(root J, s J) J {
	for i := 0; i < 20; i++ {
		r, ok := s["$ref"].(string)
		if !ok {
			return s
		}
		name := strings.TrimPrefix(r, "#/definitions/")
		name = strings.ReplaceAll(strings.ReplaceAll(name, "~1", "/"), "~0", "~")
		defs, _ := root["definitions"].(J)
		next, ok := defs[name].(J)
		if !ok {
			return J{}
		}
		s = next
	}
	return J{}
}

// Valid builds a document intended to be valid for schema s (JSON-schema
// subset) under root's definitions. The reference validator decides actual
// validity; ok=false means the generator gave up (e.g. unbounded recursion
// through required properties).
func Valid(t *rapid.T, label string, root J, s J, depth int) (any, bool) {
	if depth > 6 {
		return nil, false
	}
	// polymorphism: a position typed by a discriminated base holds a subtype
	// instance whose discriminator names the subtype definition
	if r, ok := s["$ref"].(string); ok {
		name := strings.TrimPrefix(r, "#/definitions/")
		defs, _ := root["definitions"].(J)
		if target, ok := defs[name].(J); ok {
			if disc, ok := target["discriminator"].(string); ok {
				if subs := PolySubtypes(root, name); len(subs) > 0 {
					sub := rapid.SampledFrom(subs).Draw(t, label+"_subtype")
					return Valid(t, label+"_sub", root, J{"$ref": "#/definitions/" + sub}, depth)
				}
				v, ok := Valid(t, label, root, target, depth)
				if obj, isObj := v.(J); ok && isObj {
					obj[disc] = name
				}
				return v, ok
			}
			for _, m := range asList(target["allOf"]) {
				mj, _ := m.(J)
				br, _ := mj["$ref"].(string)
				if b, ok := defs[strings.TrimPrefix(br, "#/definitions/")].(J); ok {
					if disc, ok := b["discriminator"].(string); ok {
						v, ok := Valid(t, label, root, target, depth)
						if obj, isObj := v.(J); ok && isObj {
							obj[disc] = name
						}
						return v, ok
					}
				}
			}
		}
	}
	s = Resolve(root, s)
	if e, ok := s["enum"].(A); ok && len(e) > 0 {
		return rapid.SampledFrom(e).Draw(t, label+"_enumpick"), true
	}
	if ao, ok := s["allOf"].(A); ok {
		out := J{}
		for i, m := range ao {
			mj, _ := m.(J)
			// members are read through their $ref without polymorphic dispatch
			v, ok := Valid(t, fmt.Sprintf("%s_ao%d", label, i), root, Resolve(root, mj), depth+1)
			if !ok {
				return nil, false
			}
			if vm, ok := v.(J); ok {
				for k, x := range vm {
					if _, dup := out[k]; !dup {
						out[k] = x
					}
				}
			}
		}
		if _, ok := s["properties"]; ok {
			v, ok := validObject(t, label, root, s, depth)
			if !ok {
				return nil, false
			}
			for k, x := range v {
				out[k] = x
			}
		}
		return out, true
	}
	switch s["type"] {
	case "object":
		return validObject(t, label, root, s, depth)
	case "array":
		switch items := s["items"].(type) {
		case J:
			mn, mx := 0, -1
			if v, ok := num(s["minItems"]); ok {
				mn = int(v)
			}
			if v, ok := num(s["maxItems"]); ok {
				mx = int(v)
			}
			hi := mx
			if hi < 0 {
				hi = mn + 2
			}
			if depth > 3 {
				hi = mn
			}
			if mn > hi {
				return nil, false
			}
			n := rapid.IntRange(mn, hi).Draw(t, label+"_alen")
			out := A{}
			seen := map[string]bool{}
			for i := 0; i < n; i++ {
				v, ok := Valid(t, fmt.Sprintf("%s_a%d", label, i), root, items, depth+1)
				if !ok {
					return nil, false
				}
				k := fmt.Sprintf("%#v", v)
				if truthy(s["uniqueItems"]) && seen[k] {
					if len(out) >= mn {
						break
					}
					return nil, false
				}
				seen[k] = true
				out = append(out, v)
			}
			return out, true
		case A:
			out := A{}
			for i, it := range items {
				ij, _ := it.(J)
				v, ok := Valid(t, fmt.Sprintf("%s_t%d", label, i), root, ij, depth+1)
				if !ok {
					return nil, false
				}
				out = append(out, v)
			}
			return out, true
		default:
			return A{}, true
		}
	case "string", "integer", "number", "boolean":
		return ValidSimple(t, label, s)
	case nil:
		if _, ok := s["properties"]; ok {
			return validObject(t, label, root, s, depth)
		}
		return rapid.SampledFrom([]any{"free", 3, true, J{"k": "v"}, A{1, "two"}}).Draw(t, label+"_any"), true
	}
	return nil, false
}

func validObject(t *rapid.T, label string, root J, s J, depth int) (J, bool) {
	out := J{}
	props, _ := s["properties"].(J)
	req := map[string]bool{}
	if r, ok := s["required"].(A); ok {
		for _, x := range r {
			if n, ok := x.(string); ok {
				req[n] = true
			}
		}
	}
	names := make([]string, 0, len(props))
	for k := range props {
		names = append(names, k)
	}
	sortStrings(names)
	for _, pn := range names {
		ps, _ := props[pn].(J)
		need := req[pn]
		if !need {
			pct := 60
			if depth > 2 {
				pct = 10
			}
			if !chance(t, label+"_has_"+pn, pct) {
				continue
			}
		}
		v, ok := Valid(t, label+"_"+pn, root, ps, depth+1)
		if !ok {
			if need {
				return nil, false
			}
			continue
		}
		out[pn] = v
	}
	for r := range req {
		if _, ok := props[r]; !ok {
			// required but undeclared: any value will do
			out[r] = "req"
		}
	}
	switch ap := s["additionalProperties"].(type) {
	case J:
		n := rapid.IntRange(0, 2).Draw(t, label+"_apn")
		if v, ok := num(s["minProperties"]); ok && n < int(v) {
			n = int(v)
		}
		for i := 0; i < n; i++ {
			v, ok := Valid(t, fmt.Sprintf("%s_ap%d", label, i), root, ap, depth+1)
			if !ok {
				break
			}
			out[fmt.Sprintf("extra%d", i)] = v
		}
	case bool:
		if ap && chance(t, label+"_apany", 50) {
			out["extraAny"] = rapid.SampledFrom([]any{"free", 3, true}).Draw(t, label+"_apv")
		}
	}
	return out, true
}

func sortStrings(a []string) {
	for i := 1; i < len(a); i++ {
		for j := i; j > 0 && a[j] < a[j-1]; j-- {
			a[j], a[j-1] = a[j-1], a[j]
		}
	}
}

// ValidForced builds a document valid for s in which the position reached by
// via (steps: prop:<n>, items, tuple:<i>, allOf:<i>, addl, ref:<Def>) holds value.
func ValidForced(t *rapid.T, label string, root J, s J, via []string, value any, depth int) (any, bool) {
	s = Resolve(root, s)
	for len(via) > 0 && (strings.HasPrefix(via[0], "ref:") || strings.HasPrefix(via[0], "def:")) {
		via = via[1:]
	}
	if len(via) == 0 {
		return value, true
	}
	if depth > 8 {
		return nil, false
	}
	step, rest := via[0], via[1:]
	base, ok := Valid(t, label+"_base", root, s, depth)
	if !ok {
		return nil, false
	}
	switch {
	case strings.HasPrefix(step, "prop:"):
		pn := strings.TrimPrefix(step, "prop:")
		props, _ := s["properties"].(J)
		ps, _ := props[pn].(J)
		obj, isObj := base.(J)
		if ps == nil || !isObj {
			return nil, false
		}
		v, ok := ValidForced(t, label+"_"+pn, root, ps, rest, value, depth+1)
		if !ok {
			return nil, false
		}
		obj[pn] = v
		return obj, true
	case step == "items":
		it, _ := s["items"].(J)
		arr, isArr := base.(A)
		if it == nil || !isArr {
			return nil, false
		}
		v, ok := ValidForced(t, label+"_it", root, it, rest, value, depth+1)
		if !ok {
			return nil, false
		}
		if len(arr) == 0 {
			if mx, ok := num(s["maxItems"]); ok && mx < 1 {
				return nil, false
			}
			arr = A{v}
		} else {
			arr[0] = v
		}
		return arr, true
	case strings.HasPrefix(step, "tuple:"):
		its, _ := s["items"].(A)
		arr, isArr := base.(A)
		idx := 0
		fmt.Sscanf(strings.TrimPrefix(step, "tuple:"), "%d", &idx)
		if !isArr || idx >= len(its) || idx >= len(arr) {
			return nil, false
		}
		ij, _ := its[idx].(J)
		v, ok := ValidForced(t, label+"_tu", root, ij, rest, value, depth+1)
		if !ok {
			return nil, false
		}
		arr[idx] = v
		return arr, true
	case strings.HasPrefix(step, "allOf:"):
		ms, _ := s["allOf"].(A)
		idx := 0
		fmt.Sscanf(strings.TrimPrefix(step, "allOf:"), "%d", &idx)
		if idx >= len(ms) {
			return nil, false
		}
		mj, _ := ms[idx].(J)
		v, ok := ValidForced(t, label+"_ao", root, mj, rest, value, depth+1)
		if !ok {
			return nil, false
		}
		obj, isObj := base.(J)
		vo, isObj2 := v.(J)
		if !isObj || !isObj2 {
			if len(rest) == 0 {
				return v, true
			}
			return nil, false
		}
		for k, x := range vo {
			obj[k] = x
		}
		// keys of the base that the forced member value deliberately lacks
		if len(rest) == 0 {
			mprops, _ := Resolve(root, mj)["properties"].(J)
			for k := range mprops {
				if _, keep := vo[k]; !keep {
					delete(obj, k)
				}
			}
		}
		return obj, true
	case step == "addl":
		ap, _ := s["additionalProperties"].(J)
		obj, isObj := base.(J)
		if ap == nil || !isObj {
			return nil, false
		}
		v, ok := ValidForced(t, label+"_ap", root, ap, rest, value, depth+1)
		if !ok {
			return nil, false
		}
		obj["forcedExtra"] = v
		return obj, true
	}
	return nil, false
}

// Candidates proposes values for a (resolved) schema position that are likely
// valid for it: boundary values of every constraint plus a few generated ones.
func Candidates(t *rapid.T, label string, root J, s J) []any {
	s = Resolve(root, s)
	var out []any
	add := func(v any) { out = append(out, v) }
	for _, e := range asList(s["enum"]) {
		add(e)
	}
	switch s["type"] {
	case "integer", "number":
		if mn, ok := num(s["minimum"]); ok {
			add(mn)
			add(mn + 1)
			add(mn + 0.5)
		}
		if mx, ok := num(s["maximum"]); ok {
			add(mx)
			add(mx - 1)
			add(mx - 0.5)
		}
		if m, ok := num(s["multipleOf"]); ok {
			add(m)
			add(m * 3)
			add(-m)
		}
		for _, v := range []float64{0, 1, -1, 2, 3, 7, 1.5, 0.25, 100, -100, 1e6, 3e9, -3e9, 1e12} {
			add(v)
		}
	case "string":
		if f, ok := s["format"].(string); ok && f != "" {
			for _, e := range StringFormats[f] {
				add(e)
			}
		}
		mn, _ := num(s["minLength"])
		mx, hasMax := num(s["maxLength"])
		if p, ok := s["pattern"].(string); ok {
			if pat := PatByRe(p); pat != nil {
				for _, n := range []int{pat.Min, pat.Min + 1, int(mn), int(mx), pat.Min + 4} {
					if n >= pat.Min && (pat.Max < 0 || n <= pat.Max) {
						add(pat.Make(n))
					}
				}
			}
		}
		add(strings.Repeat("x", int(mn)))
		if hasMax {
			add(strings.Repeat("y", int(mx)))
		} else {
			add(strings.Repeat("z", int(mn)+12))
		}
		for _, v := range []string{"", "a", "ab", "Abc", "hello world", "12", "x-y", "true", "2020-02-29"} {
			add(v)
		}
	case "boolean":
		add(true)
		add(false)
	}
	for i := 0; i < 4; i++ {
		if v, ok := Valid(t, fmt.Sprintf("%s_c%d", label, i), root, s, 2); ok {
			add(v)
			if arr, isArr := v.(A); isArr && len(arr) > 0 {
				add(append(append(A{}, arr...), arr[0])) // duplicate
				add(arr[:len(arr)-1])
				add(append(append(A{}, arr...), arr...))
			}
			if obj, isObj := v.(J); isObj {
				// minimal variant: required properties only
				req := map[string]bool{}
				for _, r := range asList(s["required"]) {
					req[fmt.Sprint(r)] = true
				}
				min := J{}
				for k, x := range obj {
					if req[k] {
						min[k] = x
					}
				}
				add(min)
			}
		}
	}
	if it, ok := s["items"].(J); ok && s["type"] == "array" {
		mn, _ := num(s["minItems"])
		mx, hasMax := num(s["maxItems"])
		for _, n := range []int{int(mn), int(mx), int(mn) + 1} {
			if n < 0 || (hasMax && n > int(mx)) {
				continue
			}
			arr := A{}
			okAll := true
			for i := 0; i < n; i++ {
				v, ok := Valid(t, fmt.Sprintf("%s_arr%d_%d", label, n, i), root, it, 2)
				if !ok {
					okAll = false
					break
				}
				arr = append(arr, v)
			}
			if okAll {
				add(arr)
			}
		}
	}
	return out
}
