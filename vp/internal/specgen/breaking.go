package specgen

import (
	"pgregory.net/rapid"
)

// Narrowing is an elementary edit that (intends to) make a value position
// accept fewer values. Apply mutates s in place and reports whether it did.
type Narrowing struct {
	Kind  string
	Apply func(t *rapid.T, label string, s J) bool
}

func isNumType(s J) bool { return s["type"] == "integer" || s["type"] == "number" }
func isStrType(s J) bool {
	return s["type"] == "string" && (s["format"] == nil || s["format"] == "")
}
func isArrType(s J) bool {
	_, single := s["items"].(J)
	return s["type"] == "array" && single
}

func clearDefaults(s J) {
	delete(s, "default")
	delete(s, "example")
}

// Narrowings is the catalogue of value-narrowing edits (each applicable to
// simple parameters, items, headers and JSON-schema positions alike).
var Narrowings = []Narrowing{
	{"minimum-raised", func(t *rapid.T, l string, s J) bool {
		mn, ok := num(s["minimum"])
		if !isNumType(s) || !ok || s["enum"] != nil {
			return false
		}
		step := 1.0
		if m, ok := num(s["multipleOf"]); ok {
			step = m
		}
		s["minimum"] = mn + step*float64(rapid.IntRange(1, 2).Draw(t, l+"_d"))
		if mx, ok := num(s["maximum"]); ok {
			if nm, _ := num(s["minimum"]); nm+3*step > mx {
				return false
			}
		}
		clearDefaults(s)
		return true
	}},
	{"minimum-added", func(t *rapid.T, l string, s J) bool {
		if !isNumType(s) || s["minimum"] != nil || s["enum"] != nil {
			return false
		}
		if mx, ok := num(s["maximum"]); ok {
			s["minimum"] = mx - 10
		} else {
			s["minimum"] = float64(rapid.IntRange(-5, 5).Draw(t, l+"_v"))
		}
		clearDefaults(s)
		return true
	}},
	{"maximum-lowered", func(t *rapid.T, l string, s J) bool {
		mx, ok := num(s["maximum"])
		if !isNumType(s) || !ok || s["enum"] != nil {
			return false
		}
		step := 1.0
		if m, ok := num(s["multipleOf"]); ok {
			step = m
		}
		nm := mx - step*float64(rapid.IntRange(1, 2).Draw(t, l+"_d"))
		if mn, ok := num(s["minimum"]); ok && mn+3*step > nm {
			return false
		}
		s["maximum"] = nm
		clearDefaults(s)
		return true
	}},
	{"maximum-added", func(t *rapid.T, l string, s J) bool {
		if !isNumType(s) || s["maximum"] != nil || s["enum"] != nil {
			return false
		}
		if mn, ok := num(s["minimum"]); ok {
			s["maximum"] = mn + 10
		} else {
			s["maximum"] = float64(rapid.IntRange(5, 50).Draw(t, l+"_v"))
		}
		clearDefaults(s)
		return true
	}},
	{"exclusiveMinimum-on", func(t *rapid.T, l string, s J) bool {
		if !isNumType(s) || s["minimum"] == nil || truthy(s["exclusiveMinimum"]) || s["enum"] != nil {
			return false
		}
		s["exclusiveMinimum"] = true
		clearDefaults(s)
		return true
	}},
	{"exclusiveMaximum-on", func(t *rapid.T, l string, s J) bool {
		if !isNumType(s) || s["maximum"] == nil || truthy(s["exclusiveMaximum"]) || s["enum"] != nil {
			return false
		}
		s["exclusiveMaximum"] = true
		clearDefaults(s)
		return true
	}},
	{"multipleOf-added", func(t *rapid.T, l string, s J) bool {
		if !isNumType(s) || s["multipleOf"] != nil || s["enum"] != nil {
			return false
		}
		s["multipleOf"] = rapid.SampledFrom([]int{2, 3, 5}).Draw(t, l+"_m")
		clearDefaults(s)
		return true
	}},
	{"multipleOf-changed", func(t *rapid.T, l string, s J) bool {
		m, ok := num(s["multipleOf"])
		if !isNumType(s) || !ok || s["enum"] != nil {
			return false
		}
		nm := 7.0
		if m == 7 {
			nm = 4
		}
		s["multipleOf"] = nm
		clearDefaults(s)
		return true
	}},
	{"minLength-raised", func(t *rapid.T, l string, s J) bool {
		mn, ok := num(s["minLength"])
		if !isStrType(s) || !ok || s["enum"] != nil {
			return false
		}
		nm := mn + float64(rapid.IntRange(1, 2).Draw(t, l+"_d"))
		if mx, ok := num(s["maxLength"]); ok && nm > mx {
			return false
		}
		if p := PatByRe(sstr(s["pattern"])); s["pattern"] != nil && (p == nil || (p.Max >= 0 && int(nm) > p.Max)) {
			return false
		}
		s["minLength"] = nm
		clearDefaults(s)
		return true
	}},
	{"minLength-added", func(t *rapid.T, l string, s J) bool {
		if !isStrType(s) || s["minLength"] != nil || s["enum"] != nil {
			return false
		}
		nm := float64(rapid.IntRange(1, 3).Draw(t, l+"_v"))
		if mx, ok := num(s["maxLength"]); ok && nm > mx {
			return false
		}
		if p := PatByRe(sstr(s["pattern"])); s["pattern"] != nil && (p == nil || (p.Max >= 0 && int(nm) > p.Max)) {
			return false
		}
		s["minLength"] = nm
		clearDefaults(s)
		return true
	}},
	{"maxLength-lowered", func(t *rapid.T, l string, s J) bool {
		mx, ok := num(s["maxLength"])
		if !isStrType(s) || !ok || s["enum"] != nil {
			return false
		}
		nm := mx - float64(rapid.IntRange(1, 2).Draw(t, l+"_d"))
		mn, _ := num(s["minLength"])
		if nm < mn || nm < 1 {
			return false
		}
		if p := PatByRe(sstr(s["pattern"])); s["pattern"] != nil && (p == nil || int(nm) < p.Min) {
			return false
		}
		s["maxLength"] = nm
		clearDefaults(s)
		return true
	}},
	{"maxLength-added", func(t *rapid.T, l string, s J) bool {
		if !isStrType(s) || s["maxLength"] != nil || s["enum"] != nil {
			return false
		}
		mn, _ := num(s["minLength"])
		nm := mn + float64(rapid.IntRange(2, 6).Draw(t, l+"_v"))
		if p := PatByRe(sstr(s["pattern"])); s["pattern"] != nil && (p == nil || int(nm) < p.Min) {
			return false
		}
		s["maxLength"] = nm
		clearDefaults(s)
		return true
	}},
	{"pattern-added", func(t *rapid.T, l string, s J) bool {
		if !isStrType(s) || s["pattern"] != nil || s["enum"] != nil || s["minLength"] != nil || s["maxLength"] != nil {
			return false
		}
		s["pattern"] = rapid.SampledFrom(Patterns).Draw(t, l+"_p").Re
		clearDefaults(s)
		return true
	}},
	{"pattern-changed", func(t *rapid.T, l string, s J) bool {
		if !isStrType(s) || s["pattern"] == nil || s["enum"] != nil {
			return false
		}
		cur := sstr(s["pattern"])
		var alt []Pat
		for _, p := range Patterns {
			if p.Re != cur && p.Max < 0 {
				alt = append(alt, p)
			}
		}
		s["pattern"] = rapid.SampledFrom(alt).Draw(t, l+"_p").Re
		delete(s, "minLength")
		delete(s, "maxLength")
		clearDefaults(s)
		return true
	}},
	{"enum-added", func(t *rapid.T, l string, s J) bool {
		if s["enum"] != nil || !(isNumType(s) || isStrType(s)) {
			return false
		}
		v, ok := ValidSimple(t, l+"_v", s)
		if !ok {
			return false
		}
		s["enum"] = A{v}
		clearDefaults(s)
		return true
	}},
	{"enum-value-removed", func(t *rapid.T, l string, s J) bool {
		e, ok := s["enum"].(A)
		if !ok || len(e) < 2 {
			return false
		}
		s["enum"] = removeAt(e, rapid.IntRange(0, len(e)-1).Draw(t, l+"_i"))
		clearDefaults(s)
		return true
	}},
	{"minItems-raised", func(t *rapid.T, l string, s J) bool {
		mn, ok := num(s["minItems"])
		if !isArrType(s) || !ok {
			return false
		}
		nm := mn + 1
		if mx, ok := num(s["maxItems"]); ok && nm > mx {
			return false
		}
		s["minItems"] = nm
		clearDefaults(s)
		return true
	}},
	{"minItems-added", func(t *rapid.T, l string, s J) bool {
		if !isArrType(s) || s["minItems"] != nil {
			return false
		}
		if mx, ok := num(s["maxItems"]); ok && mx < 1 {
			return false
		}
		s["minItems"] = 1
		clearDefaults(s)
		return true
	}},
	{"maxItems-lowered", func(t *rapid.T, l string, s J) bool {
		mx, ok := num(s["maxItems"])
		if !isArrType(s) || !ok {
			return false
		}
		mn, _ := num(s["minItems"])
		if mx-1 < mn || mx-1 < 1 {
			return false
		}
		s["maxItems"] = mx - 1
		clearDefaults(s)
		return true
	}},
	{"maxItems-added", func(t *rapid.T, l string, s J) bool {
		if !isArrType(s) || s["maxItems"] != nil {
			return false
		}
		mn, _ := num(s["minItems"])
		s["maxItems"] = mn + float64(rapid.IntRange(1, 2).Draw(t, l+"_v"))
		clearDefaults(s)
		return true
	}},
	{"uniqueItems-on", func(t *rapid.T, l string, s J) bool {
		if !isArrType(s) || truthy(s["uniqueItems"]) {
			return false
		}
		s["uniqueItems"] = true
		clearDefaults(s)
		return true
	}},
	{"type-changed", func(t *rapid.T, l string, s J) bool {
		old := sstr(s["type"])
		var to []string
		switch old {
		case "string":
			if s["format"] != nil && s["format"] != "" {
				return false
			}
			to = []string{"integer", "number", "boolean"}
		case "number":
			to = []string{"integer", "boolean"}
		case "integer":
			to = []string{"boolean"}
		case "boolean":
			to = []string{"integer"}
		default:
			return false
		}
		for _, k := range []string{"format", "minimum", "maximum", "exclusiveMinimum", "exclusiveMaximum", "multipleOf", "minLength", "maxLength", "pattern", "enum", "default", "example"} {
			delete(s, k)
		}
		s["type"] = rapid.SampledFrom(to).Draw(t, l+"_to")
		return true
	}},
	{"format-narrowed", func(t *rapid.T, l string, s J) bool {
		switch {
		case s["type"] == "integer" && (s["format"] == nil || s["format"] == "int64") && s["enum"] == nil && s["minimum"] == nil && s["maximum"] == nil:
			s["format"] = "int32"
		case s["type"] == "string" && (s["format"] == nil || s["format"] == "") && s["enum"] == nil && s["pattern"] == nil && s["minLength"] == nil && s["maxLength"] == nil:
			s["format"] = rapid.SampledFrom([]string{"date", "uuid", "date-time", "email"}).Draw(t, l+"_f")
		default:
			return false
		}
		clearDefaults(s)
		return true
	}},
}

func sstr(v any) string { s, _ := v.(string); return s }

// NarrowingByKind looks an entry up.
func NarrowingByKind(k string) *Narrowing {
	for i := range Narrowings {
		if Narrowings[i].Kind == k {
			return &Narrowings[i]
		}
	}
	return nil
}
