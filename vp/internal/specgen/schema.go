package specgen

import (
	"fmt"
	"strings"

	"pgregory.net/rapid"
)

// Pattern pool: regular expressions valid both in RE2 and ECMA with a
// constructor of matching strings of a requested length range.
type Pat struct {
	Re       string
	Min, Max int // admissible lengths (Max<0: unbounded)
	Make     func(n int) string
}

var Patterns = []Pat{
	{`^[a-z]+$`, 1, -1, func(n int) string { return strings.Repeat("k", n) }},
	{`^[a-z]*$`, 0, -1, func(n int) string { return strings.Repeat("m", n) }},
	{`^a`, 1, -1, func(n int) string { return "a" + strings.Repeat("Z", n-1) }},
	{`[0-9]$`, 1, -1, func(n int) string { return strings.Repeat("q", n-1) + "7" }},
	{`^[0-9]{3}$`, 3, 3, func(n int) string { return "042" }},
	{`^[A-Z][a-z]+$`, 2, -1, func(n int) string { return "T" + strings.Repeat("e", n-1) }},
	{`^(foo|bar)-[0-9]+$`, 5, -1, func(n int) string { return "foo-" + strings.Repeat("1", n-4) }},
	{`^\w+@\w+$`, 3, -1, func(n int) string { return "u@" + strings.Repeat("h", n-2) }},
}

func PatByRe(re string) *Pat {
	for i := range Patterns {
		if Patterns[i].Re == re {
			return &Patterns[i]
		}
	}
	return nil
}

// Formats usable for strings with an example valid value each (strfmt.Default).
var StringFormats = map[string][]string{
	"date":      {"2020-02-29", "1999-12-31"},
	"date-time": {"2020-02-29T12:34:56Z", "1999-12-31T23:59:59.123Z"},
	"uuid":      {"a8098c1a-f86e-11da-bd1a-00112444be1e", "6ba7b810-9dad-11d1-80b4-00c04fd430c8"},
	"email":     {"user@example.com", "a.b@c.org"},
	"uri":       {"http://example.com/x", "https://a.b/c?d=e"},
	"hostname":  {"example.com", "a.b.org"},
	"ipv4":      {"192.168.0.1", "10.0.0.255"},
	"ipv6":      {"::1", "2001:db8::ff00:42:8329"},
	"byte":      {"aGVsbG8=", "AA=="},
	"password":  {"s3cret", ""},
	"duration":  {"3h", "15m"},
	"mac":       {"01:02:03:04:05:ab", "ff:ff:ff:ff:ff:ff"},
	"uuid4":     {"f47ac10b-58cc-4372-a567-0e02b2c3d479", "9c858901-8a57-4791-81fe-4c455b099bc9"},
	"creditcard": {"4111111111111111", "5500000000000004"},
	"hexcolor":  {"#ff00aa", "#000"},
	"rgbcolor":  {"rgb(1,2,3)", "rgb(255,255,255)"},
	"ssn":       {"111-22-3333", "123-45-6789"},
	"isbn":      {"0306406152", "9780306406157"},
	"ObjectId":  {"507f1f77bcf86cd799439011", "5f1f77bcf86cd79943901100"},
	"ulid":      {"01ARZ3NDEKTSV4RRFFQ69G5FAV", "01BX5ZZKBKACTAV9WEVGEMMVRZ"},
	"cidr":      {"10.0.0.0/8", "192.168.1.0/24"},
	"bsonobjectid": {"507f1f77bcf86cd799439011", "5f1f77bcf86cd79943901100"},
	"uuid3":     {"a3bb189e-8bf9-3888-9912-ace4e6543002", "6fa459ea-ee8a-3ca4-894e-db77e160355e"},
	"uuid5":     {"886313e1-3b8a-5372-9b90-0c9aee199e5d", "2ed6657d-e927-568b-95e1-2665a8aea6a2"},
	"isbn10":    {"0306406152", "0198526636"},
	"isbn13":    {"9780306406157", "9783161484100"},
}

var stringFormatNames = sortedKeys(StringFormats)

func sortedKeys(m map[string][]string) []string {
	out := make([]string, 0, len(m))
	for k := range m {
		out = append(out, k)
	}
	// insertion sort (small)
	for i := 1; i < len(out); i++ {
		for j := i; j > 0 && out[j] < out[j-1]; j-- {
			out[j], out[j-1] = out[j-1], out[j]
		}
	}
	return out
}

// Opts steers schema generation.
type Opts struct {
	Name        func(*rapid.T, string) string // property names
	Refs        []string                      // definition names that may be $ref'd
	AllOfRefs   []string                      // definition names usable as allOf members (nil: Refs); kept acyclic by the caller
	allOfSet    bool
	// AllOfOK / AllOfUse let the caller keep the allOf ancestry of a definition free
	// of cycles and of repeated ancestors (go-openapi rejects both as "circular ancestry").
	AllOfOK  func(ref string) bool
	AllOfUse func(ref string)
	MaxDepth    int
	Tuples      bool
	Untyped     bool
	AllOf       bool
	AddlProps   bool
	Defaults    bool
	Examples    bool
	Extensions  bool
	Descr       bool
	XNullable   bool
	// Core keeps generated schemas inside the fragment in which the generated code is
	// known to behave (the regions of listed known findings are avoided by
	// construction): allOf only at the top level of a definition and never next to
	// additionalProperties, x-nullable only on primitives.
	Core bool
	ReadOnly    bool
	Formats     []string // string formats allowed (nil: a basic set)
	NoEnum      bool
	MinMaxProps bool
	Text        func(*rapid.T, string) string // free text (descriptions)
	ExtValue    func(*rapid.T, string) any    // extension values
}

func (o *Opts) allOfRefs() []string {
	base := o.Refs
	if o.allOfSet {
		base = o.AllOfRefs
	}
	if o.AllOfOK == nil {
		return base
	}
	var out []string
	for _, r := range base {
		if o.AllOfOK(r) {
			out = append(out, r)
		}
	}
	return out
}

func (o *Opts) useAllOf(r string) {
	if o.AllOfUse != nil {
		o.AllOfUse(r)
	}
}

// WithAllOfRefs returns a copy of o whose allOf members may only name refs.
func (o Opts) WithAllOfRefs(refs []string) *Opts {
	o.AllOfRefs = refs
	o.allOfSet = true
	return &o
}

func (o *Opts) text(t *rapid.T, label string) string {
	if o.Text != nil {
		return o.Text(t, label)
	}
	return rapid.SampledFrom([]string{"some text", "another text", "the thing", "x"}).Draw(t, label)
}

func (o *Opts) name(t *rapid.T, label string) string {
	if o.Name != nil {
		return o.Name(t, label)
	}
	return PlainName(t, label)
}

var basicFormats = []string{"date", "date-time", "uuid", "email", "byte", "password", "uri"}

func chance(t *rapid.T, label string, pct int) bool {
	return rapid.IntRange(1, 100).Draw(t, label) <= pct
}

// StringValidations adds coherent string constraints to s.
func stringValidations(t *rapid.T, s J, label string, noEnum bool, allowEmpty bool) {
	switch rapid.IntRange(0, 6).Draw(t, label+"_skind") {
	case 0, 1: // none
	case 2:
		mn := rapid.IntRange(0, 4).Draw(t, label+"_minl")
		s["minLength"] = mn
		if chance(t, label+"_hasmax", 50) {
			s["maxLength"] = mn + rapid.IntRange(0, 6).Draw(t, label+"_maxd")
		}
	case 3:
		s["maxLength"] = rapid.IntRange(1, 10).Draw(t, label+"_maxl")
	case 4:
		p := rapid.SampledFrom(Patterns).Draw(t, label+"_pat")
		s["pattern"] = p.Re
		if p.Max < 0 && chance(t, label+"_patlen", 30) {
			s["minLength"] = p.Min + rapid.IntRange(0, 2).Draw(t, label+"_pminl")
			s["maxLength"] = p.Min + 2 + rapid.IntRange(0, 4).Draw(t, label+"_pmaxl")
		}
	case 5, 6:
		if noEnum {
			return
		}
		n := rapid.IntRange(1, 4).Draw(t, label+"_enumn")
		pool := []string{"red", "green", "blue", "A", "b c", "1", "true", "x-y", "é", ""}
		if !allowEmpty {
			pool = pool[:len(pool)-1]
		}
		seen := map[string]bool{}
		var e A
		for i := 0; i < n; i++ {
			v := rapid.SampledFrom(pool).Draw(t, fmt.Sprintf("%s_enum%d", label, i))
			if !seen[v] {
				seen[v] = true
				e = append(e, v)
			}
		}
		s["enum"] = e
	}
}

func numberValidations(t *rapid.T, s J, label string, integer bool, noEnum bool) {
	switch rapid.IntRange(0, 7).Draw(t, label+"_nkind") {
	case 0, 1:
	case 2, 3:
		lo := rapid.IntRange(-20, 20).Draw(t, label+"_min")
		if chance(t, label+"_hasmin", 70) {
			s["minimum"] = lo
			if chance(t, label+"_exmin", 30) {
				s["exclusiveMinimum"] = true
			}
		}
		if chance(t, label+"_hasmax", 70) {
			s["maximum"] = lo + 4 + rapid.IntRange(0, 30).Draw(t, label+"_maxd")
			if chance(t, label+"_exmax", 30) {
				s["exclusiveMaximum"] = true
			}
		}
	case 4:
		if integer {
			s["multipleOf"] = rapid.SampledFrom([]int{2, 3, 5, 10}).Draw(t, label+"_mul")
		} else {
			s["multipleOf"] = rapid.SampledFrom([]float64{0.5, 0.25, 2, 1.5}).Draw(t, label+"_mulf")
		}
	case 5:
		lo := rapid.IntRange(-10, 10).Draw(t, label+"_min")
		s["minimum"] = lo
		s["maximum"] = lo + 20 + rapid.IntRange(0, 20).Draw(t, label+"_maxd")
		s["multipleOf"] = rapid.SampledFrom([]int{2, 3, 5}).Draw(t, label+"_mul")
	case 6, 7:
		if noEnum {
			return
		}
		n := rapid.IntRange(1, 4).Draw(t, label+"_enumn")
		seen := map[string]bool{}
		var e A
		for i := 0; i < n; i++ {
			var v any
			if integer {
				v = rapid.IntRange(-3, 12).Draw(t, fmt.Sprintf("%s_enum%d", label, i))
			} else {
				v = float64(rapid.IntRange(-6, 24).Draw(t, fmt.Sprintf("%s_enum%d", label, i))) / 2
			}
			k := fmt.Sprint(v)
			if !seen[k] {
				seen[k] = true
				e = append(e, v)
			}
		}
		s["enum"] = e
	}
}

func arrayValidations(t *rapid.T, s J, label string) {
	switch rapid.IntRange(0, 5).Draw(t, label+"_akind") {
	case 0, 1, 2:
	case 3:
		mn := rapid.IntRange(0, 3).Draw(t, label+"_mini")
		s["minItems"] = mn
		if chance(t, label+"_hasmaxi", 50) {
			s["maxItems"] = mn + rapid.IntRange(0, 4).Draw(t, label+"_maxid")
		}
	case 4:
		s["maxItems"] = rapid.IntRange(1, 6).Draw(t, label+"_maxi")
	case 5:
		s["uniqueItems"] = true
	}
}

// SimpleOpts steers parameter / header / items schemas.
type SimpleOpts struct {
	In         string // query, path, header, formData, "" (response header), items
	Defaults   bool
	Extensions bool
	MaxDepth   int
	File       bool
	NoEnum     bool
	Formats    []string
}

// Simple generates the type part of a non-body parameter, header or items
// object (type, format, items, collectionFormat, validations, default).
func Simple(t *rapid.T, label string, o SimpleOpts, depth int) J {
	s := J{}
	kinds := []string{"string", "string", "integer", "integer", "number", "boolean", "fstring"}
	if depth < o.MaxDepth {
		kinds = append(kinds, "array", "array")
	}
	if o.File && depth == 0 && o.In == "formData" {
		kinds = append(kinds, "file")
	}
	k := rapid.SampledFrom(kinds).Draw(t, label+"_kind")
	switch k {
	case "string":
		s["type"] = "string"
		stringValidations(t, s, label, o.NoEnum, false)
	case "fstring":
		s["type"] = "string"
		fs := o.Formats
		if fs == nil {
			fs = basicFormats
		}
		s["format"] = rapid.SampledFrom(fs).Draw(t, label+"_fmt")
	case "integer":
		s["type"] = "integer"
		if f := rapid.SampledFrom([]string{"", "int32", "int64"}).Draw(t, label+"_ifmt"); f != "" {
			s["format"] = f
		}
		numberValidations(t, s, label, true, o.NoEnum)
	case "number":
		s["type"] = "number"
		if f := rapid.SampledFrom([]string{"", "float", "double"}).Draw(t, label+"_nfmt"); f != "" {
			s["format"] = f
		}
		numberValidations(t, s, label, false, o.NoEnum)
	case "boolean":
		s["type"] = "boolean"
	case "file":
		s["type"] = "file"
		return s
	case "array":
		s["type"] = "array"
		s["items"] = Simple(t, label+"_it", SimpleOpts{In: "items", MaxDepth: o.MaxDepth, NoEnum: o.NoEnum, Formats: o.Formats}, depth+1)
		cfs := []string{"", "csv", "ssv", "tsv", "pipes"}
		if depth == 0 && (o.In == "query" || o.In == "formData") {
			cfs = append(cfs, "multi")
		}
		if cf := rapid.SampledFrom(cfs).Draw(t, label+"_cf"); cf != "" {
			s["collectionFormat"] = cf
		}
		arrayValidations(t, s, label)
	}
	if o.Defaults && o.In != "path" && chance(t, label+"_hasdef", 25) {
		if v, ok := ValidSimple(t, label+"_def", s); ok {
			s["default"] = v
		}
	}
	if o.Extensions && chance(t, label+"_hasext", 10) {
		s["x-"+PlainName(t, label+"_extk")] = rapid.SampledFrom([]any{"v", 1, true, A{"a"}, J{"k": "v"}}).Draw(t, label+"_extv")
	}
	return s
}

// Schema generates a JSON-schema (Swagger 2.0 subset) tree.
func Schema(t *rapid.T, label string, o *Opts, depth int) J {
	s := J{}
	kinds := []string{"string", "fstring", "integer", "number", "boolean"}
	if depth < o.MaxDepth {
		kinds = append(kinds, "array", "object", "object")
		if o.AddlProps {
			kinds = append(kinds, "map")
		}
		if o.AllOf && len(o.allOfRefs()) > 0 && !(o.Core && depth > 0) {
			kinds = append(kinds, "allOf")
		}
		if o.Tuples {
			kinds = append(kinds, "tuple")
		}
	}
	if len(o.Refs) > 0 {
		kinds = append(kinds, "ref", "ref")
	}
	if o.Untyped {
		kinds = append(kinds, "untyped")
	}
	k := rapid.SampledFrom(kinds).Draw(t, label+"_kind")
	switch k {
	case "string":
		s["type"] = "string"
		stringValidations(t, s, label, o.NoEnum, true)
	case "fstring":
		s["type"] = "string"
		fs := o.Formats
		if fs == nil {
			fs = basicFormats
		}
		s["format"] = rapid.SampledFrom(fs).Draw(t, label+"_fmt")
	case "integer":
		s["type"] = "integer"
		if f := rapid.SampledFrom([]string{"", "int32", "int64"}).Draw(t, label+"_ifmt"); f != "" {
			s["format"] = f
		}
		numberValidations(t, s, label, true, o.NoEnum)
	case "number":
		s["type"] = "number"
		if f := rapid.SampledFrom([]string{"", "float", "double"}).Draw(t, label+"_nfmt"); f != "" {
			s["format"] = f
		}
		numberValidations(t, s, label, false, o.NoEnum)
	case "boolean":
		s["type"] = "boolean"
	case "array":
		s["type"] = "array"
		s["items"] = Schema(t, label+"_it", o, depth+1)
		arrayValidations(t, s, label)
	case "tuple":
		s["type"] = "array"
		n := rapid.IntRange(1, 3).Draw(t, label+"_tn")
		var items A
		for i := 0; i < n; i++ {
			items = append(items, Schema(t, fmt.Sprintf("%s_t%d", label, i), o, depth+1))
		}
		s["items"] = items
	case "object":
		ObjectInto(t, label, o, depth, s)
	case "map":
		s["type"] = "object"
		if chance(t, label+"_aptrue", 20) {
			s["additionalProperties"] = true
		} else {
			s["additionalProperties"] = Schema(t, label+"_ap", o, depth+1)
		}
		if o.MinMaxProps && chance(t, label+"_mmp", 30) {
			s["minProperties"] = rapid.IntRange(0, 2).Draw(t, label+"_minp")
			s["maxProperties"] = 2 + rapid.IntRange(0, 3).Draw(t, label+"_maxp")
		}
	case "allOf":
		n := rapid.IntRange(1, 3).Draw(t, label+"_an")
		var members A
		usedRef := map[string]bool{}
		for i := 0; i < n; i++ {
			if cands := o.allOfRefs(); len(cands) > 0 && chance(t, fmt.Sprintf("%s_aref%d", label, i), 60) {
				r := rapid.SampledFrom(cands).Draw(t, fmt.Sprintf("%s_ar%d", label, i))
				if usedRef[r] {
					continue
				}
				usedRef[r] = true
				o.useAllOf(r)
				members = append(members, J{"$ref": "#/definitions/" + r})
			} else {
				m := J{}
				mo := *o
				if o.Core {
					mo.AddlProps = false // members of a composition carry no additionalProperties in the core fragment
				}
				ObjectInto(t, fmt.Sprintf("%s_am%d", label, i), &mo, depth+1, m)
				members = append(members, m)
			}
		}
		if len(members) == 0 {
			if cands := o.allOfRefs(); len(cands) > 0 {
				o.useAllOf(cands[0])
				members = append(members, J{"$ref": "#/definitions/" + cands[0]})
			} else {
				members = append(members, J{"type": "object", "properties": J{"inherited" + PlainName(t, label+"_fallback"): J{"type": "string"}}})
			}
		}
		s["allOf"] = members
	case "ref":
		s["$ref"] = "#/definitions/" + rapid.SampledFrom(o.Refs).Draw(t, label+"_ref")
		return s
	case "untyped":
		if chance(t, label+"_udesc", 50) {
			s["description"] = o.text(t, label+"_udesc_t")
		}
		return s
	}
	if o.Descr && chance(t, label+"_hasdesc", 25) {
		s["description"] = o.text(t, label+"_desc")
	}
	if o.Defaults && isPrim(s) && chance(t, label+"_hasdef", 20) {
		if v, ok := ValidSimple(t, label+"_def", s); ok {
			s["default"] = v
		}
	}
	if o.Examples && isPrim(s) && chance(t, label+"_hasex", 15) {
		if v, ok := ValidSimple(t, label+"_ex", s); ok {
			s["example"] = v
		}
	}
	if o.XNullable && (!o.Core || isPrim(s)) && chance(t, label+"_xn", 15) {
		s["x-nullable"] = rapid.Bool().Draw(t, label+"_xnv")
	}
	if o.Extensions && chance(t, label+"_hasext", 10) {
		if o.ExtValue != nil {
			s["x-"+PlainName(t, label+"_extk")] = o.ExtValue(t, label+"_extv")
		} else {
			s["x-"+PlainName(t, label+"_extk")] = rapid.SampledFrom([]any{"v", 1, true, A{"a"}, J{"k": "v"}}).Draw(t, label+"_extv")
		}
	}
	return s
}

func isPrim(s J) bool {
	switch s["type"] {
	case "string", "integer", "number", "boolean":
		return true
	}
	return false
}

// ObjectInto fills s with an object schema with properties.
func ObjectInto(t *rapid.T, label string, o *Opts, depth int, s J) {
	s["type"] = "object"
	n := rapid.IntRange(0, 4).Draw(t, label+"_pn")
	if n == 0 && !o.Untyped {
		n = 1
	}
	props := J{}
	var names A
	used := map[string]bool{}
	for i := 0; i < n; i++ {
		pn := Unique(t, fmt.Sprintf("%s_p%d", label, i), used, nil, o.name)
		ps := Schema(t, fmt.Sprintf("%s_ps%d", label, i), o, depth+1)
		if o.ReadOnly && chance(t, fmt.Sprintf("%s_ro%d", label, i), 8) && ps["$ref"] == nil {
			ps["readOnly"] = true
		}
		props[pn] = ps
		names = append(names, pn)
	}
	if len(props) > 0 {
		s["properties"] = props
		var req A
		for i, pn := range names {
			if chance(t, fmt.Sprintf("%s_req%d", label, i), 40) {
				req = append(req, pn)
			}
		}
		if len(req) > 0 {
			s["required"] = req
		}
	}
	if o.AllOf && len(o.allOfRefs()) > 0 && !(o.Core && depth > 0) && chance(t, label+"_oallof", 15) {
		// own properties next to allOf members (inherited properties)
		var members A
		n := rapid.IntRange(1, 2).Draw(t, label+"_oan")
		usedRef := map[string]bool{}
		for i := 0; i < n; i++ {
			if cands := o.allOfRefs(); len(cands) > 0 && chance(t, fmt.Sprintf("%s_oaref%d", label, i), 70) {
				r := rapid.SampledFrom(cands).Draw(t, fmt.Sprintf("%s_oar%d", label, i))
				if !usedRef[r] {
					usedRef[r] = true
					o.useAllOf(r)
					members = append(members, J{"$ref": "#/definitions/" + r})
				}
			} else {
				members = append(members, J{"type": "object", "properties": J{"inherited" + PlainName(t, fmt.Sprintf("%s_oapn%d", label, i)): J{"type": "string"}}})
			}
		}
		if len(members) > 0 {
			s["allOf"] = members
		}
	}
	if o.AddlProps && !(o.Core && s["allOf"] != nil) && chance(t, label+"_oap", 15) {
		switch rapid.IntRange(0, 2).Draw(t, label+"_oapk") {
		case 0:
			s["additionalProperties"] = true
		case 1:
			s["additionalProperties"] = false
		case 2:
			s["additionalProperties"] = Schema(t, label+"_oaps", o, depth+1)
		}
	}
}
