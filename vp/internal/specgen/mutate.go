package specgen

import (
	"fmt"
	"strings"

	"pgregory.net/rapid"
)

// Mutation is one candidate change of a document at a position.
type Mutation struct {
	Class string // what is attempted (constraint kind / zero / null / type confusion ...)
	Apply func() // performs the change in place (on the cloned document)
}

type holder struct {
	set func(v any)
	del func() // nil when the position cannot be removed (array element)
}

// Mutate clones doc and applies one mutation chosen among all positions;
// returns the mutated document and the mutation class ("" if none applies).
// Intent only steers the valid/invalid mix: the validators decide validity.
func Mutate(t *rapid.T, label string, root J, schema J, doc any) (any, string) {
	clone := Clone(doc)
	var top any = clone
	var muts []Mutation
	collect(root, schema, top, holder{set: func(v any) { top = v }}, &muts, 0, "")
	if len(muts) == 0 {
		return top, ""
	}
	m := muts[rapid.IntRange(0, len(muts)-1).Draw(t, label+"_mut")]
	m.Apply()
	return top, m.Class
}

func zeroOf(s J) (any, bool) {
	switch s["type"] {
	case "string":
		return "", true
	case "integer", "number":
		return 0, true
	case "boolean":
		return false, true
	}
	return nil, false
}

func collect(root J, s J, v any, h holder, out *[]Mutation, depth int, pos string) {
	if depth > 8 {
		return
	}
	s = Resolve(root, s)
	add := func(class string, nv any) {
		*out = append(*out, Mutation{Class: pos + class, Apply: func() { h.set(nv) }})
	}
	for _, m := range asList(s["allOf"]) {
		if mj, ok := m.(J); ok {
			collect(root, mj, v, h, out, depth+1, pos)
		}
	}
	switch s["type"] {
	case "integer", "number":
		f, isNum := num(v)
		if !isNum {
			return
		}
		add("type:string-for-number", fmt.Sprint(v))
		if s["type"] == "integer" {
			add("type:fraction-for-integer", f+0.5)
			if s["format"] == "int32" {
				add("format:int32-overflow", 3000000000)
			}
		}
		add("zero", 0)
		if mn, ok := num(s["minimum"]); ok {
			add("minimum:below", mn-1)
			add("minimum:equal", mn)
		}
		if mx, ok := num(s["maximum"]); ok {
			add("maximum:above", mx+1)
			add("maximum:equal", mx)
		}
		if m, ok := num(s["multipleOf"]); ok {
			if s["type"] == "integer" {
				add("multipleOf:off", f+1)
			} else {
				add("multipleOf:off", f+m/2)
			}
		}
		if s["enum"] != nil {
			add("enum:non-member", 987)
		}
	case "string":
		sv, isStr := v.(string)
		if !isStr {
			return
		}
		add("type:number-for-string", 7)
		add("zero", "")
		if mn, ok := num(s["minLength"]); ok && mn > 0 {
			add("minLength:short", strings.Repeat("a", int(mn)-1))
			add("minLength:equal", strings.Repeat("a", int(mn)))
		}
		if mx, ok := num(s["maxLength"]); ok {
			add("maxLength:long", strings.Repeat("a", int(mx)+1))
			add("maxLength:equal", strings.Repeat("a", int(mx)))
			add("maxLength:multibyte-equal", strings.Repeat("é", int(mx)))
		}
		if s["pattern"] != nil {
			add("pattern:miss", sv+"\x01!")
			add("pattern:miss2", "!!"+sv)
		}
		if s["enum"] != nil {
			add("enum:non-member", sv+"-nope")
			add("enum:case", strings.ToUpper(sv))
		}
		if f, ok := s["format"].(string); ok && f != "" {
			add("format:garbage:"+f, "not-a-"+f)
			add("format:truncated:"+f, trimLast(sv))
		}
	case "boolean":
		if _, ok := v.(bool); !ok {
			return
		}
		add("type:string-for-bool", "true")
		add("zero", false)
	case "array":
		arr, isArr := v.(A)
		if !isArr {
			return
		}
		add("type:object-for-array", J{})
		add("empty-array", A{})
		if mn, ok := num(s["minItems"]); ok && mn > 0 && len(arr) >= int(mn) {
			add("minItems:short", append(A{}, arr[:int(mn)-1]...))
		}
		if mx, ok := num(s["maxItems"]); ok && len(arr) > 0 {
			long := append(A{}, arr...)
			for len(long) <= int(mx) {
				long = append(long, Clone(arr[len(long)%len(arr)]))
			}
			add("maxItems:long", long)
		}
		if len(arr) > 0 {
			add("uniqueItems:duplicate", append(append(A{}, arr...), Clone(arr[0])))
		}
		switch it := s["items"].(type) {
		case J:
			for i := range arr {
				i := i
				collect(root, it, arr[i], holder{set: func(nv any) { arr[i] = nv }}, out, depth+1, pos+"items>")
			}
		case A:
			for i := range arr {
				if i < len(it) {
					i := i
					if ij, ok := it[i].(J); ok {
						collect(root, ij, arr[i], holder{set: func(nv any) { arr[i] = nv }}, out, depth+1, pos+"tuple>")
					}
				}
			}
		}
	case "object", nil:
		obj, isObj := v.(J)
		if !isObj {
			return
		}
		if s["type"] == "object" {
			add("type:array-for-object", A{})
		}
		props, _ := s["properties"].(J)
		req := map[string]bool{}
		for _, r := range asList(s["required"]) {
			req[fmt.Sprint(r)] = true
		}
		for _, pn := range sortedKeysJ(props) {
			pn := pn
			ps, _ := props[pn].(J)
			pv, present := obj[pn]
			cls := "optional"
			if req[pn] {
				cls = "required"
			}
			if present {
				*out = append(*out, Mutation{Class: pos + "drop-" + cls + "-property", Apply: func() { delete(obj, pn) }})
				collect(root, ps, pv, holder{set: func(nv any) { obj[pn] = nv }}, out, depth+1, pos+"prop>")
			} else {
				rs := Resolve(root, ps)
				if z, ok := zeroOf(rs); ok {
					*out = append(*out, Mutation{Class: pos + "add-zero-" + cls + "-property", Apply: func() { obj[pn] = z }})
				}
				*out = append(*out, Mutation{Class: pos + "add-null-" + cls + "-property", Apply: func() { obj[pn] = nil }})
			}
		}
		*out = append(*out, Mutation{Class: pos + "add-unknown-property", Apply: func() { obj["zzUnknownProp"] = "x" }})
		if ap, ok := s["additionalProperties"].(J); ok {
			for _, k := range sortedKeysJ(obj) {
				if _, declared := props[k]; declared {
					continue
				}
				k := k
				collect(root, ap, obj[k], holder{set: func(nv any) { obj[k] = nv }}, out, depth+1, pos+"addl>")
			}
		}
		if mx, ok := num(s["maxProperties"]); ok {
			*out = append(*out, Mutation{Class: pos + "maxProperties:many", Apply: func() {
				for i := 0; len(obj) <= int(mx); i++ {
					obj[fmt.Sprintf("zzMany%d", i)] = "x"
				}
			}})
		}
		if mn, ok := num(s["minProperties"]); ok && mn > 0 {
			*out = append(*out, Mutation{Class: pos + "minProperties:few", Apply: func() {
				for _, k := range sortedKeysJ(obj) {
					if !req[k] && len(obj) >= int(mn) {
						delete(obj, k)
					}
				}
			}})
		}
	}
}

func trimLast(s string) string {
	if len(s) > 1 {
		return s[:len(s)-1]
	}
	return s + "?"
}

// Mutated is one single-mutation variant of a document.
type Mutated struct {
	Class string
	Doc   any
}

// AllMutations returns every single-position mutation of doc (each applied to
// its own clone), in a deterministic order.
func AllMutations(root J, schema J, doc any) []Mutated {
	// count first
	var probe []Mutation
	var top any = Clone(doc)
	collect(root, schema, top, holder{set: func(v any) { top = v }}, &probe, 0, "")
	out := make([]Mutated, 0, len(probe))
	for i := range probe {
		var t2 any = Clone(doc)
		var ms []Mutation
		collect(root, schema, t2, holder{set: func(v any) { t2 = v }}, &ms, 0, "")
		if i >= len(ms) {
			break
		}
		ms[i].Apply()
		out = append(out, Mutated{Class: ms[i].Class, Doc: t2})
	}
	return out
}
