package specgen

import (
	"strings"

	"pgregory.net/rapid"
)

// AmbiguousScalars: strings that a YAML 1.1 / 1.2 resolver may read as
// something other than a string, or that need quoting / escaping.
var AmbiguousScalars = []string{
	"yes", "no", "on", "off", "y", "n", "Y", "N", "Yes", "NO", "True", "TRUE", "false", "null", "Null", "NULL", "~", "",
	"1", "0", "-1", "+1", "1.0", "1.", ".5", "1e3", "1E3", "1e+3", "-1.5e-7", "0x1F", "0o17", "017", "0b101", "1_000", "1,000",
	".inf", "-.inf", ".Inf", ".NaN", ".nan", "NaN", "Infinity",
	"2001-12-14", "2001-12-14t21:59:43.10-05:00", "2001-12-14 21:59:43.10 -5", "12:30:45", "1:30", "190:20:30",
	"12345678901234567890", "9007199254740993", "1e400", "0.1", "00.1", "-0", "-0.0",
	" lead", "trail ", "  both  ", "a: b", "a:b", "a #b", "#comment", "- item", "-", "--", "---", "...", "? key", "?", "key: value: x",
	"[a, b]", "{a: b}", "[", "]", "{", "}", ",", "&anchor", "*alias", "!tag", "!!str x", "|", ">", "|-", ">+", "%directive", "@at", "`tick",
	"'single'", "\"double\"", "it's", "say \"hi\"", "back\\slash", "tab\there", "line\nbreak", "two\n\nbreaks\n", "trailing newline\n", "cr\rhere", "crlf\r\nline",
	"été", "名前", "\U0001F600", " sep", "\u0085nel", "\ufeffbom", "nul\u0000byte", "bell\u0007", "del\u007f", "esc\u001b[0m",
	"<<", "=", "==", "<tag>", "a&b", "100%", "$ref", "${var}", "{{ .X }}", "%s %d", "\\n", "\\u0041",
	"multi\nline: with colon\n  and indent", "- a\n- b", "key:\n  nested: 1", "# only comment", "x\ty", " ", "\t", "\n",
}

// AmbiguousNumbers: numeric values whose text form differs between encoders.
var AmbiguousNumbers = []any{
	0, -0.0, 1, -1, 1.5, 0.1, 1e21, 1e-7, 123456789012, 9007199254740993.0, 12345678901234567890.0, 1.7976931348623157e308, 5e-324, 1e6, 100000000000000000000.0, 0.000001, 3.0, 2.5e10,
}

// AmbiguousText draws a free-text value.
func AmbiguousText(t *rapid.T, label string) string {
	switch rapid.IntRange(0, 19).Draw(t, label+"_tm") {
	case 0, 1, 2, 3, 4, 5, 6, 7, 8, 9, 10, 11, 12, 13:
		return rapid.SampledFrom([]string{"some text", "another text", "plain words"}).Draw(t, label)
	case 14:
		a := rapid.SampledFrom(AmbiguousScalars).Draw(t, label+"_a")
		b := rapid.SampledFrom(AmbiguousScalars).Draw(t, label+"_b")
		return a + rapid.SampledFrom([]string{" ", "\n", ": ", ""}).Draw(t, label+"_j") + b
	default:
		return rapid.SampledFrom(AmbiguousScalars).Draw(t, label)
	}
}

// AmbiguousKey draws a name usable as a JSON object key / property name
// (non-empty, no control characters that a spec key cannot carry).
func AmbiguousKey(t *rapid.T, label string) string {
	if rapid.IntRange(0, 5).Draw(t, label+"_km") != 0 {
		return PlainName(t, label)
	}
	for i := 0; i < 10; i++ {
		s := rapid.SampledFrom(AmbiguousScalars).Draw(t, label)
		if strings.TrimSpace(s) != "" && !strings.ContainsAny(s, "\x00\n\r \u0085") && !strings.Contains(s, "/") && !strings.Contains(s, "~") && !strings.Contains(s, "%") && !strings.Contains(s, "\"") {
			return s
		}
	}
	return PlainName(t, label)
}

// AmbiguousExt draws an extension value.
func AmbiguousExt(t *rapid.T, label string) any {
	switch rapid.IntRange(0, 9).Draw(t, label+"_em") {
	case 6, 7, 8, 9:
		return rapid.SampledFrom([]any{"v", 1, true, "w"}).Draw(t, label+"_plain")
	case 0:
		return rapid.SampledFrom(AmbiguousNumbers).Draw(t, label+"_n")
	case 1:
		return A{AmbiguousText(t, label+"_a0"), rapid.SampledFrom(AmbiguousNumbers).Draw(t, label+"_a1"), true, nil}
	case 2:
		return J{AmbiguousKey(t, label+"_k"): AmbiguousText(t, label+"_v"), "n": rapid.SampledFrom(AmbiguousNumbers).Draw(t, label+"_n")}
	case 3:
		return rapid.Bool().Draw(t, label+"_b")
	default:
		return AmbiguousText(t, label+"_s")
	}
}
