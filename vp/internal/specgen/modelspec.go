package specgen

import (
	"fmt"
	"strings"

	"pgregory.net/rapid"
)

// ModelFormats: every string format of generator/formats.go that the reference
// validator knows under the same name.
var ModelFormats = []string{"date", "date-time", "uuid", "uuid3", "uuid4", "uuid5", "email", "uri", "hostname", "ipv4", "ipv6", "byte", "password", "duration", "mac", "creditcard", "hexcolor", "rgbcolor", "ssn", "isbn", "isbn10", "isbn13", "bsonobjectid", "ulid"}

// ModelOpts steers ModelSpec.
type ModelOpts struct {
	Name        func(*rapid.T, string) string // property names
	DefName     func(*rapid.T, string) string
	Tuples      bool
	Polymorphic bool // add a discriminated base type with subtypes and holders
	Composite   bool // add allOf compositions whose members declare container-typed properties
	MinDefs     int
	MaxDefs     int
	NoDefaults  bool
	// Deep lifts the Core restriction of the schema generator (exploration of the
	// regions where listed known findings live).
	Deep bool
}

// ModelSpec draws a document whose subject is its definitions.
func ModelSpec(t *rapid.T, o ModelOpts) J {
	if o.MaxDefs == 0 {
		o.MinDefs, o.MaxDefs = 4, 9
	}
	cfg := &SpecCfg{
		Schema: Opts{Name: o.Name, MaxDepth: 3, AllOf: true, AddlProps: true, Defaults: !o.NoDefaults, Tuples: o.Tuples,
			XNullable: true, ReadOnly: true, MinMaxProps: true, Formats: ModelFormats, Descr: true, Core: !o.Deep},
		MinDefs: o.MinDefs, MaxDefs: o.MaxDefs, MinPaths: 1, MaxPaths: 1, MaxParams: 0, AcyclicRefs: true,
		Methods: []string{"get"}, DefName: o.DefName,
	}
	doc := Spec(t, cfg)
	if o.Polymorphic && chance(t, "poly", 60) {
		addPolymorphic(t, doc, o)
	}
	if o.Composite && chance(t, "composite", 70) {
		addComposite(t, doc, o)
	}
	return doc
}

// addPolymorphic adds a base type with a discriminator, two or three subtypes
// (allOf [base, own properties]) and holders reaching subtypes through the base.
func addPolymorphic(t *rapid.T, doc J, o ModelOpts) {
	defs, _ := doc["definitions"].(J)
	if defs == nil {
		defs = J{}
		doc["definitions"] = defs
	}
	pn := o.Name
	if pn == nil {
		pn = PlainName
	}
	base := "Polybase"
	if defs[base] != nil {
		return
	}
	disc := "kind" + PlainName(t, "poly_disc")
	used := map[string]bool{disc: true}
	bprops := J{disc: J{"type": "string"}}
	breq := A{disc}
	for i := 0; i < rapid.IntRange(0, 2).Draw(t, "poly_nb"); i++ {
		n := Unique(t, fmt.Sprintf("poly_bp%d", i), used, strings.ToLower, pn)
		bprops[n] = Schema(t, fmt.Sprintf("poly_bps%d", i), &Opts{MaxDepth: 1, Formats: ModelFormats}, 1)
		if chance(t, fmt.Sprintf("poly_breq%d", i), 40) {
			breq = append(breq, n)
		}
	}
	defs[base] = J{"type": "object", "discriminator": disc, "properties": bprops, "required": breq}
	ns := rapid.IntRange(2, 3).Draw(t, "poly_ns")
	for i := 0; i < ns; i++ {
		sn := fmt.Sprintf("Polysub%d", i)
		sprops := J{}
		var sreq A
		for k := 0; k < rapid.IntRange(1, 3).Draw(t, fmt.Sprintf("poly_s%d_n", i)); k++ {
			n := Unique(t, fmt.Sprintf("poly_s%d_p%d", i, k), used, strings.ToLower, pn)
			sprops[n] = Schema(t, fmt.Sprintf("poly_s%d_ps%d", i, k), &Opts{MaxDepth: 1, Formats: ModelFormats}, 1)
			if chance(t, fmt.Sprintf("poly_s%d_req%d", i, k), 40) {
				sreq = append(sreq, n)
			}
		}
		own := J{"type": "object", "properties": sprops}
		if len(sreq) > 0 {
			own["required"] = sreq
		}
		defs[sn] = J{"allOf": A{J{"$ref": "#/definitions/" + base}, own}}
	}
	defs["Polyholder"] = J{"type": "object", "properties": J{
		"one":  J{"$ref": "#/definitions/" + base},
		"many": J{"type": "array", "items": J{"$ref": "#/definitions/" + base}},
		"name": J{"type": "string"},
	}, "required": A{"one"}}
}

// PolySubtypes lists the subtype definition names of a discriminated base.
func PolySubtypes(doc J, base string) []string {
	defs, _ := doc["definitions"].(J)
	var out []string
	for _, n := range sortedKeysJ(defs) {
		d, _ := defs[n].(J)
		for _, m := range asList(d["allOf"]) {
			if mj, ok := m.(J); ok && mj["$ref"] == "#/definitions/"+base {
				out = append(out, n)
			}
		}
	}
	return out
}

// addComposite adds allOf compositions whose inline members (and the composition
// itself) declare map-, array- and named-container-typed properties, randomly required.
func addComposite(t *rapid.T, doc J, o ModelOpts) {
	defs, _ := doc["definitions"].(J)
	if defs == nil || defs["Compbase"] != nil {
		return
	}
	defs["Compbase"] = J{"type": "object", "properties": J{"id": J{"type": "string"}}, "required": A{"id"}}
	defs["Comparr"] = J{"type": "array", "items": J{"type": "string"}}
	defs["Compmap"] = J{"type": "object", "additionalProperties": J{"type": "integer"}}
	mk := func(label string) (J, A) {
		props := J{}
		var req A
		cands := map[string]J{
			"labels": {"type": "object", "additionalProperties": J{"type": "string"}},
			"tags":   {"$ref": "#/definitions/Comparr"},
			"attrs":  {"$ref": "#/definitions/Compmap"},
			"items":  {"type": "array", "items": J{"type": "integer"}},
			"count":  {"type": "integer"},
			"note":   {"type": "string"},
			"when":   {"type": "string", "format": "date"},
			"flag":   {"type": "boolean"},
		}
		for _, k := range sortedKeysJ(J{"labels": 1, "tags": 1, "attrs": 1, "items": 1, "count": 1, "note": 1, "when": 1, "flag": 1}) {
			if chance(t, label+"_has_"+k, 55) {
				props[label+k] = cands[k]
				if chance(t, label+"_req_"+k, 50) {
					req = append(req, label+k)
				}
			}
		}
		return props, req
	}
	p1, r1 := mk("m")
	member := J{"type": "object", "properties": p1}
	if len(r1) > 0 {
		member["required"] = r1
	}
	comp := J{"allOf": A{J{"$ref": "#/definitions/Compbase"}, member}}
	if chance(t, "comp_own", 50) {
		p2, r2 := mk("o")
		if len(p2) > 0 {
			comp["type"] = "object"
			comp["properties"] = p2
			if len(r2) > 0 {
				comp["required"] = r2
			}
		}
	}
	defs["Composite"] = comp
}
