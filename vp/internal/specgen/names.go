package specgen

import (
	"fmt"

	"pgregory.net/rapid"
)

// J is a JSON object tree owned by the driver.
type J = map[string]any

// A is a JSON array.
type A = []any

var plainWords = []string{
	"alpha", "beta", "gamma", "delta", "omega", "item", "count", "name", "value", "kind",
	"size", "owner", "label", "color", "width", "height", "status", "score", "limit", "offset",
	"pet", "user", "order", "tagged", "photo", "store", "group", "token", "entry", "page",
}

// PlainName returns a lower-case identifier-like name: [a-z][a-z0-9]{2,8}.
func PlainName(t *rapid.T, label string) string {
	if rapid.IntRange(0, 3).Draw(t, label+"_pool") > 0 {
		w := rapid.SampledFrom(plainWords).Draw(t, label+"_w")
		if rapid.Bool().Draw(t, label+"_sfx") {
			return fmt.Sprintf("%s%d", w, rapid.IntRange(0, 9).Draw(t, label+"_n"))
		}
		return w
	}
	return rapid.StringMatching(`[a-z][a-z0-9]{2,6}`).Draw(t, label)
}

// NastyPool: names that stress Go identifier mangling. Every entry contains a letter.
var NastyPool = []string{
	// cases and separators
	"snake_case_name", "kebab-case-name", "dot.ted.name", "spa ced name", "camelCaseName", "PascalCaseName",
	"UPPER", "lower", "mIxEd", "with__double", "trailing_", "_leading", "-dash", "a", "A", "x1", "X_1",
	// leading digits / symbols
	"1st", "2nd_place", "3D", "+1", "-1", "@type", "$ref_like", "#hash", "%pct", "&and", "*star", "!bang",
	"a@b", "a&b", "a|b", "a$b", "a+b", "a=b", "a,b", "a;b", "a:b", "a'b", `a"b`, "a`b", "a/b", `a\b`,
	"a(b)", "a[b]", "a{b}", "a<b>", "a?b", "a~b", "a^b", "a%b", "a#b", "a!b", "a b", "a  b",
	// initialisms known to swag
	"id", "ID", "Id", "url", "URL", "http", "HTTP", "https", "api", "API", "uuid", "UUID", "json", "JSON", "xml", "html",
	"ip", "IP", "tcp", "udp", "ui", "uri", "sql", "ssh", "tls", "ttl", "cpu", "ascii", "eof", "guid", "ram", "rpc", "sla", "smtp", "utf8", "vm", "xsrf", "xss", "acl", "dns", "lhs", "qps", "rhs",
	"user_id", "userId", "UserID", "httpServer", "HTTPServer", "api_url", "IDs", "ids", "URLs",
	// Go keywords
	"break", "case", "chan", "const", "continue", "default", "defer", "else", "fallthrough", "for", "func", "go", "goto",
	"if", "import", "interface", "map", "package", "range", "return", "select", "struct", "switch", "type", "var",
	// predeclared identifiers
	"bool", "byte", "complex64", "complex128", "error", "float32", "float64", "int", "int8", "int16", "int32", "int64",
	"rune", "string", "uint", "uint8", "uint16", "uint32", "uint64", "uintptr", "true", "false", "iota", "nil",
	"append", "cap", "close", "complex", "copy", "delete", "imag", "len", "make", "new", "panic", "print", "println",
	"real", "recover", "any", "comparable", "min", "max", "clear", "init", "main",
	"Bool", "Error", "String", "Int", "Type", "Func", "Map", "Len", "New", "Nil", "Any",
	// words the templates use as locals, receivers, imports or packages
	"params", "Params", "res", "err", "o", "m", "r", "rw", "body", "Body", "timeout", "Timeout", "context", "Context",
	"httpClient", "HTTPClient", "errors", "runtime", "strfmt", "swag", "validate", "models", "operations", "client",
	"restapi", "cli", "cmd", "server", "formats", "reg", "route", "result", "response", "Response", "payload", "Payload",
	"producer", "consumer", "principal", "Principal", "handler", "Handler", "api", "spec", "json", "fmt", "io", "os", "time", "http", "url", "strconv",
	"middleware", "security", "request", "Request", "value", "values", "data", "index", "i", "ii", "key", "k", "v", "this", "self",
	"Validate", "validate", "ContextValidate", "MarshalBinary", "UnmarshalBinary", "MarshalJSON", "UnmarshalJSON", "Name", "SetName",
	"WriteToRequest", "BindRequest", "WriteResponse", "ReadResponse", "HTTPRequest", "WithTimeout", "SetTimeout", "WithContext", "SetContext", "WithHTTPClient", "SetHTTPClient", "WithDefaults", "SetDefaults",
	"Code", "IsSuccess", "IsRedirect", "IsClientError", "IsServerError", "IsCode", "GetPayload",
	"OK", "Default", "NoContent", "Created",
	// GOOS / GOARCH / test file-suffix words
	"linux", "windows", "darwin", "amd64", "arm64", "test", "foo_test", "foo_linux", "foo_windows", "bar_amd64", "thing_js", "thing_wasm", "x_unix", "android", "ios",
	// generated file suffix words
	"foo_parameters", "foo_responses", "foo_urlbuilder", "foo_client", "get_foo", "foo_params_body", "foo_ok_body",
	// names the generator de-conflicts with a rename chain (client timeout field, context, http client)
	"Timeout", "_timeout", "timeout-", "TimeOut", "request-timeout", "RequestTimeout", "request_timeout", "http_request_timeout", "HTTPRequestTimeout", "swagger-timeout", "operation_timeout",
	"Context", "_context", "request-context", "HTTPClient", "http_client", "http-client",
	// non-ASCII letters
	"é", "été", "ß", "straße", "Ж", "жук", "名", "名前", "naïve", "Ünïcode", "ñandú", "日本語name", "emoji😀x",
}

// NastyName draws from the pool, sometimes composing two entries.
func NastyName(t *rapid.T, label string) string {
	switch rapid.IntRange(0, 9).Draw(t, label+"_mode") {
	case 0:
		return PlainName(t, label)
	case 1:
		a := rapid.SampledFrom(NastyPool).Draw(t, label+"_a")
		b := rapid.SampledFrom(NastyPool).Draw(t, label+"_b")
		sep := rapid.SampledFrom([]string{"_", "-", " ", ".", ""}).Draw(t, label+"_sep")
		return a + sep + b
	default:
		return rapid.SampledFrom(NastyPool).Draw(t, label)
	}
}

// TextName returns names that are plain for Go but carry characters that matter
// to reports, YAML and JSON (used by diff / yaml checks).
func TextName(t *rapid.T, label string) string {
	if rapid.IntRange(0, 4).Draw(t, label+"_mode") > 0 {
		return PlainName(t, label)
	}
	base := PlainName(t, label)
	dec := rapid.SampledFrom([]string{"-x", "_y", ".z", " w", "é", "名", ",c", "->d", "'s", ":k", "#h", "1", "~t", "%25"}).Draw(t, label+"_dec")
	return base + dec
}

// Unique draws names with gen until one is not in used (compared with key()).
func Unique(t *rapid.T, label string, used map[string]bool, key func(string) string, gen func(*rapid.T, string) string) string {
	for i := 0; ; i++ {
		n := gen(t, fmt.Sprintf("%s_%d", label, i))
		k := n
		if key != nil {
			k = key(n)
		}
		if !used[k] {
			used[k] = true
			return n
		}
		if i > 20 {
			n = fmt.Sprintf("%sq%d", n, len(used))
			if key != nil {
				k = key(n)
			} else {
				k = n
			}
			if !used[k] {
				used[k] = true
				return n
			}
		}
	}
}

// Uniform draws an index in [0,n) without rapid's bias towards small values (fair
// coin flips, folded with a modulus; still shrinks towards 0).
func Uniform(t *rapid.T, label string, n int) int {
	if n <= 1 {
		return 0
	}
	bits := 2
	for (1 << bits) < 8*n {
		bits++
	}
	v := 0
	for i := 0; i < bits; i++ {
		v <<= 1
		if rapid.Bool().Draw(t, fmt.Sprintf("%s_b%d", label, i)) {
			v |= 1
		}
	}
	return v % n
}

// Pick is SampledFrom with a uniform distribution.
func Pick[T any](t *rapid.T, label string, xs []T) T { return xs[Uniform(t, label, len(xs))] }
