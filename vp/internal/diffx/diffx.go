// Package diffx holds helpers shared by the diff property checks (C12-C15).
package diffx

import (
	"strings"
	"time"

	"github.com/go-openapi/spec"
	"github.com/go-swagger/go-swagger/cmd/swagger/commands/diff"

	"verif/internal/pbt"
)

type Result struct {
	Diffs    diff.SpecDifferences
	Err      error
	Panicked bool
	PMsg     string
	Stack    []byte
	Timeout  bool
}

// Compare runs diff.Compare guarded against panics and non-termination.
func Compare(s1, s2 *spec.Swagger) Result {
	ch := make(chan Result, 1)
	go func() {
		var r Result
		r.Panicked, r.PMsg, r.Stack = pbt.Recover(func() {
			r.Diffs, r.Err = diff.Compare(s1, s2)
		})
		ch <- r
	}()
	select {
	case r := <-ch:
		return r
	case <-time.After(60 * time.Second):
		return Result{Timeout: true}
	}
}

func PanicClass(msg string) string {
	switch {
	case strings.Contains(msg, "uncomparable"):
		return "uncomparable"
	case strings.Contains(msg, "nil pointer"):
		return "nil-deref"
	case strings.Contains(msg, "index out of range"):
		return "index-out-of-range"
	}
	return "other"
}

// Dir is the class and direction of a change code: +1 added/widened/to-required,
// -1 deleted/narrowed/to-optional, 0 direction-less.
type Dir struct {
	Class string
	Sign  int
}

var CodeDir = map[diff.SpecChangeCode]Dir{
	diff.NoChangeDetected:          {"NoChange", 0},
	diff.DeletedProperty:           {"Property", -1},
	diff.AddedProperty:             {"Property", +1},
	diff.AddedRequiredProperty:     {"Property", +1},
	diff.DeletedOptionalParam:      {"OptionalParam", -1},
	diff.AddedOptionalParam:        {"OptionalParam", +1},
	diff.DeletedRequiredParam:      {"RequiredParam", -1},
	diff.AddedRequiredParam:        {"RequiredParam", +1},
	diff.ChangedDescripton:         {"Description", 0},
	diff.AddedDescripton:           {"Description", +1},
	diff.DeletedDescripton:         {"Description", -1},
	diff.ChangedTag:                {"Tag", 0},
	diff.AddedTag:                  {"Tag", +1},
	diff.DeletedTag:                {"Tag", -1},
	diff.DeletedResponse:           {"Response", -1},
	diff.AddedResponse:             {"Response", +1},
	diff.DeletedEndpoint:           {"Endpoint", -1},
	diff.DeletedDeprecatedEndpoint: {"Endpoint", -1},
	diff.AddedEndpoint:             {"Endpoint", +1},
	diff.WidenedType:               {"Wideness", +1},
	diff.NarrowedType:              {"Wideness", -1},
	diff.ChangedToCompatibleType:   {"CompatibleType", 0},
	diff.ChangedType:               {"Type", 0},
	diff.AddedEnumValue:            {"EnumValue", +1},
	diff.DeletedEnumValue:          {"EnumValue", -1},
	diff.ChangedOptionalToRequired: {"Required", +1},
	diff.ChangedRequiredToOptional: {"Required", -1},
	diff.AddedConsumesFormat:       {"Consumes", +1},
	diff.DeletedConsumesFormat:     {"Consumes", -1},
	diff.AddedProducesFormat:       {"Produces", +1},
	diff.DeletedProducesFormat:     {"Produces", -1},
	diff.AddedSchemes:              {"Schemes", +1},
	diff.DeletedSchemes:            {"Schemes", -1},
	diff.ChangedHostURL:            {"Host", 0},
	diff.ChangedBasePath:           {"BasePath", 0},
	diff.AddedResponseHeader:       {"ResponseHeader", +1},
	diff.ChangedResponseHeader:     {"ResponseHeader", 0},
	diff.DeletedResponseHeader:     {"ResponseHeader", -1},
	diff.RefTargetChanged:          {"RefTarget", 0},
	diff.RefTargetRenamed:          {"RefRenamed", 0},
	diff.DeletedConstraint:         {"Constraint", -1},
	diff.AddedConstraint:           {"Constraint", +1},
	diff.DeletedDefinition:         {"Definition", -1},
	diff.AddedDefinition:           {"Definition", +1},
	diff.ChangedDefault:            {"Default", 0},
	diff.AddedDefault:              {"Default", +1},
	diff.DeletedDefault:            {"Default", -1},
	diff.ChangedExample:            {"Example", 0},
	diff.AddedExample:              {"Example", +1},
	diff.DeletedExample:            {"Example", -1},
	diff.ChangedCollectionFormat:   {"CollectionFormat", 0},
	diff.DeletedExtension:          {"Extension", -1},
	diff.AddedExtension:            {"Extension", +1},
	diff.ChangedExtensionValue:     {"Extension", 0},
}

func (d Dir) String() string {
	switch d.Sign {
	case 1:
		return d.Class + "+"
	case -1:
		return d.Class + "-"
	}
	return d.Class + "="
}

// LocKey reduces a location to URL, method, response code and field names
// (type decorations are taken from one of the two specs and are not location).
func LocKey(l diff.DifferenceLocation) string {
	var sb strings.Builder
	sb.WriteString(l.Method)
	sb.WriteString(" ")
	sb.WriteString(l.URL)
	if l.Response != 0 {
		sb.WriteString(" ->")
		sb.WriteString(itoa(l.Response))
	}
	for n := l.Node; n != nil; n = n.ChildNode {
		sb.WriteString(" ▸")
		sb.WriteString(n.Field)
	}
	return sb.String()
}

func itoa(i int) string {
	if i == 0 {
		return "0"
	}
	neg := i < 0
	if neg {
		i = -i
	}
	var b []byte
	for i > 0 {
		b = append([]byte{byte('0' + i%10)}, b...)
		i /= 10
	}
	if neg {
		return "-" + string(b)
	}
	return string(b)
}
