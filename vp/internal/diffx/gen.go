package diffx

import (
	"fmt"

	"pgregory.net/rapid"

	"verif/internal/specgen"
)

// PairCfg is the spec configuration shared by the pair-based diff checks.
func PairCfg() *specgen.SpecCfg {
	return &specgen.SpecCfg{
		Schema: specgen.Opts{Name: specgen.TextName, MaxDepth: 3, AllOf: true, AddlProps: true,
			Defaults: true, Examples: true, Extensions: true, Descr: true},
		Simple:  specgen.SimpleOpts{Defaults: true, Extensions: true, MaxDepth: 2, File: true},
		MinDefs: 1, MaxDefs: 4, MinPaths: 1, MaxPaths: 3, MaxParams: 3,
		ParamName: specgen.TextName,
		Tags:      true, Meta: true, Security: true, Extensions: true, SharedParams: true, RespHeaders: true,
		FormData: true, Body: true, Deprecated: true, OpConsumes: true, DefaultResponse: true,
	}
}

// GenPair draws a spec and an edited copy (1..maxEdits catalogue edits).
func GenPair(t *rapid.T, maxEdits int) (a, b specgen.J, kinds []string) {
	a = specgen.Spec(t, PairCfg())
	b = specgen.CloneJ(a)
	n := rapid.IntRange(1, maxEdits).Draw(t, "nedits")
	for i := 0; i < n; i++ {
		if k := specgen.RandomEdit(t, fmt.Sprintf("e%d", i), b); k != "" {
			kinds = append(kinds, k)
		}
	}
	return
}
