package refmodel

import (
	"bytes"
	"fmt"
	"math"
	"mime/multipart"
	"net/http"
	"net/http/httptest"
	"net/url"
	"regexp"
	"sort"
	"strconv"
	"strings"
)

// Verdict of the three-valued reference model.
type Verdict int

const (
	Accept Verdict = iota
	Reject
	Unspecified
)

func (v Verdict) String() string { return [...]string{"accept", "reject", "unspecified"}[v] }

// Request is an abstract HTTP request to one operation.
type Request struct {
	Method      string              `json:"method"`
	Template    string              `json:"template"` // path template of the targeted operation
	PathParams  map[string]string   `json:"path_params,omitempty"`
	Query       map[string][]string `json:"query,omitempty"`
	Header      map[string][]string `json:"header,omitempty"`
	Form        map[string][]string `json:"form,omitempty"`
	HasBody     bool                `json:"has_body,omitempty"`
	Body        string              `json:"body,omitempty"` // raw text
	ContentType string              `json:"content_type,omitempty"`
	Accept      string              `json:"accept,omitempty"`
	// Typed holds the typed value carried for each non-body parameter
	// ("<in>:<name>"), as the composer chose it before encoding.
	Typed map[string]any `json:"typed,omitempty"`
}

// Path returns the concrete URL path (path parameters substituted, escaped).
func (r *Request) Path(basePath string) string {
	p := r.Template
	for k, v := range r.PathParams {
		p = strings.ReplaceAll(p, "{"+k+"}", url.PathEscape(v))
	}
	bp := strings.TrimRight(basePath, "/")
	return bp + p
}

// HTTP builds the concrete request.
func (r *Request) HTTP(basePath string) *http.Request {
	u := r.Path(basePath)
	if len(r.Query) > 0 {
		u += "?" + url.Values(r.Query).Encode()
	}
	var body *bytes.Reader
	ct := r.ContentType
	switch {
	case r.HasBody:
		body = bytes.NewReader([]byte(r.Body))
	case strings.HasPrefix(ct, "multipart/form-data"):
		var buf bytes.Buffer
		mw := multipart.NewWriter(&buf)
		keys := make([]string, 0, len(r.Form))
		for k := range r.Form {
			keys = append(keys, k)
		}
		sort.Strings(keys)
		for _, k := range keys {
			for _, v := range r.Form[k] {
				_ = mw.WriteField(k, v)
			}
		}
		_ = mw.Close()
		body = bytes.NewReader(buf.Bytes())
		ct = mw.FormDataContentType()
	case len(r.Form) > 0 || strings.HasPrefix(ct, "application/x-www-form-urlencoded"):
		body = bytes.NewReader([]byte(url.Values(r.Form).Encode()))
		if ct == "" {
			ct = "application/x-www-form-urlencoded"
		}
	default:
		body = bytes.NewReader(nil)
	}
	req := httptest.NewRequest(strings.ToUpper(r.Method), "http://example.test"+u, body)
	if ct != "" {
		req.Header.Set("Content-Type", ct)
	}
	if r.Accept != "" {
		req.Header.Set("Accept", r.Accept)
	}
	for k, vs := range r.Header {
		for _, v := range vs {
			req.Header.Add(k, v)
		}
	}
	return req
}

// Bound is the outcome of the reference binder for a whole request.
type Bound struct {
	Verdict Verdict
	Reason  string         // first reason for Reject / Unspecified
	Values  map[string]any // "<in>:<name>" -> typed value (nil = absent without default)
	// Parsed: typed values of the parameters whose text could be parsed (whether or
	// not they pass validation); ParseLevel: some rejection happened before
	// validation (absence, emptiness, unparsable text, content type, routing).
	Parsed     map[string]any
	ParseLevel bool
}

func (b *Bound) set(v Verdict, reason string) {
	// Reject dominates Unspecified dominates Accept
	if v == Reject && b.Verdict != Reject {
		b.Verdict, b.Reason = Reject, reason
	} else if v == Unspecified && b.Verdict == Accept {
		b.Verdict, b.Reason = Unspecified, reason
	}
}

var (
	reInt   = regexp.MustCompile(`^-?[0-9]+$`)
	reNum   = regexp.MustCompile(`^-?[0-9]+(\.[0-9]+)?$`)
	reNumLx = regexp.MustCompile(`^[+-]?(0[xX][0-9a-fA-F]+|[0-9_]*\.?[0-9_]*([eEpP][+-]?[0-9]+)?|[iI]nf(inity)?|[nN]a[nN])$`)
)

// Separator of a collectionFormat ("" for multi).
func Separator(cf string) string {
	switch cf {
	case "ssv":
		return " "
	case "tsv":
		return "\t"
	case "pipes":
		return "|"
	case "multi":
		return ""
	}
	return ","
}

// ParseScalar converts the text of a non-array value per type/format.
func ParseScalar(s J, raw string) (any, Verdict, string) {
	t := str(s["type"])
	f := str(s["format"])
	switch t {
	case "integer":
		if !reInt.MatchString(raw) {
			if reNumLx.MatchString(raw) && raw != "" && raw != "-" && raw != "+" && raw != "." {
				return nil, Unspecified, "integer text form " + strconv.Quote(raw)
			}
			return nil, Reject, "not an integer: " + strconv.Quote(raw)
		}
		bits := 64
		if f == "int32" || f == "uint32" {
			bits = 32
		}
		if strings.HasPrefix(f, "uint") {
			if strings.HasPrefix(raw, "-") {
				return nil, Reject, "negative for unsigned format"
			}
			v, err := strconv.ParseUint(raw, 10, bits)
			if err != nil {
				return nil, Reject, "out of range"
			}
			return float64(v), Accept, ""
		}
		v, err := strconv.ParseInt(raw, 10, bits)
		if err != nil {
			return nil, Reject, "out of range for " + f
		}
		return float64(v), Accept, ""
	case "number":
		if !reNum.MatchString(raw) {
			if reNumLx.MatchString(raw) && raw != "" && raw != "-" && raw != "+" && raw != "." {
				return nil, Unspecified, "number text form " + strconv.Quote(raw)
			}
			return nil, Reject, "not a number: " + strconv.Quote(raw)
		}
		v, err := strconv.ParseFloat(raw, 64)
		if err != nil || math.IsInf(v, 0) {
			return nil, Unspecified, "number out of range"
		}
		if f == "float" && float64(float32(v)) != v {
			return nil, Unspecified, "not exactly representable in float32"
		}
		return v, Accept, ""
	case "boolean":
		switch raw {
		case "true":
			return true, Accept, ""
		case "false":
			return false, Accept, ""
		}
		return nil, Reject, "not a boolean: " + strconv.Quote(raw)
	case "string", "":
		return raw, Accept, ""
	case "file":
		return raw, Unspecified, "file"
	}
	return nil, Unspecified, "type " + t
}

// BindSimple evaluates one non-body parameter (or header / items) given the
// raw occurrences (nil = absent).
func BindSimple(p J, raws []string, in string) (any, Verdict, string) {
	required := truthy(p["required"]) || in == "path"
	if raws == nil {
		if required {
			return nil, Reject, "required parameter absent"
		}
		if d, ok := p["default"]; ok {
			return d, Accept, ""
		}
		return nil, Accept, ""
	}
	t := str(p["type"])
	cf := str(p["collectionFormat"])
	if t == "array" && len(raws) == 1 && raws[0] == "" {
		// `?a=` for an array: an empty array or one empty item? Swagger does not say
		return nil, Unspecified, "array parameter present but empty"
	}
	if t == "array" && cf == "multi" {
		return bindItems(p, raws)
	}
	if len(raws) > 1 {
		return nil, Unspecified, "repeated key for a non-multi parameter"
	}
	raw := raws[0]
	if raw == "" {
		return emptyValue(p, required)
	}
	if t == "array" {
		sep := Separator(cf)
		return bindItems(p, strings.Split(raw, sep))
	}
	return bindScalar(p, raw)
}

func emptyValue(p J, required bool) (any, Verdict, string) {
	allowEmpty := truthy(p["allowEmptyValue"])
	switch {
	case allowEmpty && p["default"] != nil:
		return nil, Unspecified, "allowEmptyValue with a default: empty value or default?"
	case allowEmpty && str(p["type"]) == "string" && p["enum"] == nil && p["minLength"] == nil && p["pattern"] == nil && str(p["format"]) == "":
		return "", Accept, ""
	case allowEmpty:
		return nil, Unspecified, "allowEmptyValue with a typed/constrained parameter"
	case required:
		return nil, Reject, "required parameter present but empty"
	}
	return nil, Unspecified, "optional parameter present but empty"
}

func bindScalar(p J, raw string) (any, Verdict, string) {
	v, vd, why := ParseScalar(p, raw)
	if vd != Accept {
		return nil, vd, why
	}
	if errs := Validate(J{}, withoutMeta(p), v, "value"); len(errs) > 0 {
		return v, Reject, "validation " + errs[0]
	}
	return v, Accept, ""
}

// withoutMeta strips parameter-only keys so the object reads as a schema.
func withoutMeta(p J) J {
	out := J{}
	for k, v := range p {
		switch k {
		case "name", "in", "required", "description", "default", "allowEmptyValue", "collectionFormat", "example":
			continue
		}
		if strings.HasPrefix(k, "x-") {
			continue
		}
		out[k] = v
	}
	return out
}

func bindItems(p J, parts []string) (any, Verdict, string) {
	items, _ := p["items"].(J)
	if items == nil {
		return nil, Unspecified, "array without items"
	}
	out := A{}
	worst := Accept
	why := ""
	for _, part := range parts {
		if part == "" || strings.TrimSpace(part) != part {
			return nil, Unspecified, "array item empty or padded (not representable)"
		}
		var v any
		var vd Verdict
		var w string
		if str(items["type"]) == "array" {
			v, vd, w = bindItems(items, strings.Split(part, Separator(str(items["collectionFormat"]))))
		} else {
			v, vd, w = bindScalar(items, part)
		}
		if vd == Reject && !strings.HasPrefix(w, "validation ") {
			return nil, Reject, w
		}
		if vd == Reject && worst == Accept {
			worst, why = Reject, w
		}
		if vd == Unspecified {
			worst, why = Unspecified, w
		}
		out = append(out, v)
	}
	if worst == Unspecified {
		return nil, worst, why
	}
	if worst == Reject {
		return out, Reject, why
	}
	// array-level validations
	arr := J{"type": "array"}
	for _, k := range []string{"minItems", "maxItems", "uniqueItems", "enum"} {
		if v, ok := p[k]; ok {
			arr[k] = v
		}
	}
	if errs := Validate(J{}, arr, out, "value"); len(errs) > 0 {
		return out, Reject, "validation " + errs[0]
	}
	return out, Accept, ""
}

// OpInfo is what the binder needs to know about the targeted operation.
type OpInfo struct {
	Root     J
	Template string
	Method   string
	Params   []J // effective parameters
	Consumes []string
}

// FindOp resolves template+method in doc (nil if absent).
func FindOp(doc J, template, method string) *OpInfo {
	paths, _ := doc["paths"].(J)
	item, _ := paths[template].(J)
	if item == nil {
		return nil
	}
	op, _ := item[strings.ToLower(method)].(J)
	if op == nil {
		return nil
	}
	info := &OpInfo{Root: doc, Template: template, Method: strings.ToLower(method)}
	seen := map[string]bool{}
	for _, p := range asList(op["parameters"]) {
		if pj, ok := p.(J); ok && pj["$ref"] == nil {
			seen[str(pj["in"])+":"+str(pj["name"])] = true
			info.Params = append(info.Params, pj)
		}
	}
	for _, p := range asList(item["parameters"]) {
		if pj, ok := p.(J); ok && pj["$ref"] == nil && !seen[str(pj["in"])+":"+str(pj["name"])] {
			info.Params = append(info.Params, pj)
		}
	}
	cons := asList(op["consumes"])
	if op["consumes"] == nil {
		cons = asList(doc["consumes"])
	}
	for _, c := range cons {
		info.Consumes = append(info.Consumes, str(c))
	}
	return info
}

func headerValues(h map[string][]string, name string) []string {
	var out []string
	found := false
	keys := make([]string, 0, len(h))
	for k := range h {
		keys = append(keys, k)
	}
	sort.Strings(keys)
	for _, k := range keys {
		if strings.EqualFold(k, name) {
			found = true
			out = append(out, h[k]...)
		}
	}
	if !found {
		return nil
	}
	return out
}

func mediaType(ct string) string {
	if i := strings.Index(ct, ";"); i >= 0 {
		ct = ct[:i]
	}
	return strings.ToLower(strings.TrimSpace(ct))
}

// Bind evaluates a whole request against the operation it targets in doc.
func Bind(doc J, r *Request) Bound {
	b := Bound{Values: map[string]any{}, Parsed: map[string]any{}}
	op := FindOp(doc, r.Template, r.Method)
	if op == nil {
		b.set(Reject, "no such operation")
		b.ParseLevel = true
		return b
	}
	hasBodyParam, hasForm := false, false
	for _, p := range op.Params {
		switch p["in"] {
		case "body":
			hasBodyParam = true
		case "formData":
			hasForm = true
		}
	}
	if (hasBodyParam && r.HasBody) || (hasForm && (len(r.Form) > 0 || r.ContentType != "")) {
		cons := op.Consumes
		if len(cons) == 0 {
			cons = []string{"application/json"}
		}
		ct := mediaType(r.ContentType)
		ok := false
		for _, c := range cons {
			if mediaType(c) == ct {
				ok = true
			}
		}
		if ct == "" {
			b.set(Unspecified, "body without Content-Type")
		} else if !ok {
			b.set(Reject, "Content-Type "+ct+" not consumed")
			b.ParseLevel = true
		}
	}
	for _, p := range op.Params {
		name, in := str(p["name"]), str(p["in"])
		key := in + ":" + name
		var raws []string
		switch in {
		case "query":
			if v, ok := r.Query[name]; ok {
				raws = v
			}
		case "header":
			raws = headerValues(r.Header, name)
		case "path":
			if v, ok := r.PathParams[name]; ok {
				raws = []string{v}
				if v == "" || strings.Contains(v, "/") {
					b.set(Unspecified, "path value empty or containing '/'")
				}
			}
		case "formData":
			if str(p["type"]) == "file" {
				b.set(Unspecified, "file parameter")
				continue
			}
			if v, ok := r.Form[name]; ok {
				raws = v
			}
		case "body":
			if !r.HasBody || len(strings.TrimSpace(r.Body)) == 0 {
				if truthy(p["required"]) {
					b.set(Reject, "required body absent")
					b.ParseLevel = true
				}
				b.Values[key] = nil
				continue
			}
			v, err := Decode([]byte(r.Body))
			if err != nil {
				b.set(Reject, "malformed JSON body")
				b.ParseLevel = true
				continue
			}
			if v == nil {
				b.set(Unspecified, "null body")
				continue
			}
			s, _ := p["schema"].(J)
			if s == nil {
				s = J{}
			}
			b.Parsed[key] = v
			if errs := Validate(doc, s, v, "body"); len(errs) > 0 {
				b.set(Reject, "validation "+errs[0])
				continue
			}
			b.Values[key] = v
			continue
		default:
			continue
		}
		v, vd, why := BindSimple(p, raws, in)
		if vd != Accept {
			b.set(vd, fmt.Sprintf("%s: %s", key, why))
			if vd == Reject && strings.HasPrefix(why, "validation ") {
				b.Parsed[key] = v
			} else if vd == Reject {
				b.ParseLevel = true
			}
			continue
		}
		b.Values[key] = v
		if raws != nil {
			b.Parsed[key] = v
		}
	}
	return b
}

// FormatScalar renders a typed value as request text.
func FormatScalar(v any) string {
	switch x := v.(type) {
	case string:
		return x
	case bool:
		return strconv.FormatBool(x)
	case int:
		return strconv.Itoa(x)
	case int64:
		return strconv.FormatInt(x, 10)
	case float64:
		if isInteger(x) && math.Abs(x) < 1e15 {
			return strconv.FormatInt(int64(x), 10)
		}
		return strconv.FormatFloat(x, 'f', -1, 64)
	}
	return fmt.Sprint(v)
}

// Encode renders a typed value for a simple parameter as raw occurrences;
// ok=false when the value is not representable in the collectionFormat.
func Encode(p J, v any) (raws []string, ok bool) {
	if str(p["type"]) != "array" {
		return []string{FormatScalar(v)}, true
	}
	arr, isArr := v.([]any)
	if !isArr {
		return nil, false
	}
	items, _ := p["items"].(J)
	cf := str(p["collectionFormat"])
	sep := Separator(cf)
	var parts []string
	for _, e := range arr {
		var part string
		if str(items["type"]) == "array" {
			sub, ok := Encode(items, e)
			if !ok || len(sub) != 1 {
				return nil, false
			}
			part = sub[0]
		} else {
			part = FormatScalar(e)
		}
		if part == "" || strings.TrimSpace(part) != part || (sep != "" && strings.Contains(part, sep)) {
			return nil, false
		}
		parts = append(parts, part)
	}
	if cf == "multi" {
		if len(parts) == 0 {
			return nil, false
		}
		return parts, true
	}
	if len(parts) == 0 {
		return nil, false
	}
	return []string{strings.Join(parts, sep)}, true
}
