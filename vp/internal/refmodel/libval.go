package refmodel

import (
	"encoding/json"
	"strings"

	"github.com/go-openapi/analysis"
	"github.com/go-openapi/loads"
	"github.com/go-openapi/spec"
	"github.com/go-openapi/strfmt"
	"github.com/go-openapi/validate"
)

// Lib is the library oracle for requests: go-openapi/analysis for routing and
// media types, go-openapi/validate (parameter and schema validators, the
// "reference validator") for the typed values a request carries.
type Lib struct {
	doc *loads.Document
	an  *analysis.Spec
}

func NewLib(specJSON []byte) (*Lib, error) {
	doc, err := loads.Analyzed(json.RawMessage(specJSON), "")
	if err != nil {
		return nil, err
	}
	return &Lib{doc: doc, an: doc.Analyzer}, nil
}

// Accepts evaluates the request through its typed values (Request.Typed).
// why is a short reason when the verdict is false.
func (l *Lib) Accepts(r *Request) (ok bool, why string) {
	defer func() {
		if rc := recover(); rc != nil {
			ok, why = false, "library-panic"
		}
	}()
	op, found := l.an.OperationFor(strings.ToUpper(r.Method), r.Template)
	if !found || op == nil {
		return false, "no-such-operation"
	}
	params := l.an.ParamsFor(strings.ToUpper(r.Method), r.Template)
	for _, p := range params {
		p := p
		key := p.In + ":" + p.Name
		v, present := r.Typed[key]
		if p.In == "body" {
			if !r.HasBody {
				if p.Required {
					return false, key + " required"
				}
				continue
			}
			cons := l.an.ConsumesFor(op)
			if len(cons) == 0 {
				cons = []string{"application/json"}
			}
			okct := false
			for _, c := range cons {
				if mediaType(c) == mediaType(r.ContentType) {
					okct = true
				}
			}
			if !okct {
				return false, "content-type"
			}
			var bv any
			if err := json.Unmarshal([]byte(r.Body), &bv); err != nil {
				return false, "malformed body"
			}
			sch := p.Schema
			if sch == nil {
				sch = &spec.Schema{}
			}
			res := validate.NewSchemaValidator(sch, l.doc.Spec(), "", strfmt.Default).Validate(bv)
			if res != nil && !res.IsValid() {
				return false, key + " " + firstErr(res)
			}
			continue
		}
		if !present {
			if p.Required {
				return false, key + " required"
			}
			continue
		}
		res := validate.NewParamValidator(&p, strfmt.Default).Validate(v)
		if res != nil && !res.IsValid() {
			return false, key + " " + firstErr(res)
		}
	}
	return true, ""
}

func firstErr(res *validate.Result) string {
	if len(res.Errors) > 0 {
		return res.Errors[0].Error()
	}
	return "invalid"
}
