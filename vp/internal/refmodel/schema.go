// Package refmodel holds the self-written reference models (oracles): a small
// JSON-schema validator for the Swagger 2.0 subset, the request binder written
// from the Swagger 2.0 parameter semantics, and the security evaluator.
package refmodel

import (
	"encoding/json"
	"fmt"
	"math"
	"math/big"
	"regexp"
	"sort"
	"strings"
	"time"
	"unicode/utf8"

	"github.com/go-openapi/strfmt"
)

type J = map[string]any
type A = []any

func num(v any) (float64, bool) {
	switch x := v.(type) {
	case int:
		return float64(x), true
	case int64:
		return float64(x), true
	case float64:
		return x, true
	case json.Number:
		f, err := x.Float64()
		return f, err == nil
	}
	return 0, false
}

func truthy(v any) bool { b, _ := v.(bool); return b }

func str(v any) string { s, _ := v.(string); return s }

// Resolve follows local $refs.
func Resolve(root J, s J) J {
	for i := 0; i < 30; i++ {
		r, ok := s["$ref"].(string)
		if !ok {
			return s
		}
		name := strings.TrimPrefix(r, "#/definitions/")
		name = strings.ReplaceAll(strings.ReplaceAll(name, "~1", "/"), "~0", "~")
		defs, _ := root["definitions"].(J)
		next, ok := defs[name].(J)
		if !ok {
			return J{}
		}
		s = next
	}
	return J{}
}

var reCache = map[string]*regexp.Regexp{}

func compile(p string) (*regexp.Regexp, error) {
	if r, ok := reCache[p]; ok {
		return r, nil
	}
	r, err := regexp.Compile(p)
	if err == nil {
		reCache[p] = r
	}
	return r, err
}

// JSONEqual compares two decoded JSON values (numbers by value).
func JSONEqual(a, b any) bool {
	if fa, ok := num(a); ok {
		fb, ok2 := num(b)
		return ok2 && fa == fb
	}
	switch x := a.(type) {
	case nil:
		return b == nil
	case bool:
		y, ok := b.(bool)
		return ok && x == y
	case string:
		y, ok := b.(string)
		return ok && x == y
	case []any:
		y, ok := b.([]any)
		if !ok || len(x) != len(y) {
			return false
		}
		for i := range x {
			if !JSONEqual(x[i], y[i]) {
				return false
			}
		}
		return true
	case map[string]any:
		y, ok := b.(map[string]any)
		if !ok || len(x) != len(y) {
			return false
		}
		for k, v := range x {
			w, ok := y[k]
			if !ok || !JSONEqual(v, w) {
				return false
			}
		}
		return true
	}
	return false
}

func isInteger(f float64) bool { return f == math.Trunc(f) && !math.IsInf(f, 0) }

// MultipleOf decides v % m == 0 exactly for decimal inputs.
func MultipleOf(v, m float64) bool {
	if m == 0 {
		return true
	}
	rv, ok1 := new(big.Rat).SetString(trimFloat(v))
	rm, ok2 := new(big.Rat).SetString(trimFloat(m))
	if !ok1 || !ok2 {
		return math.Mod(v, m) == 0
	}
	q := new(big.Rat).Quo(rv, rm)
	return q.IsInt()
}

func trimFloat(f float64) string {
	return strings.TrimRight(strings.TrimRight(fmt.Sprintf("%.12f", f), "0"), ".")
}

// FormatRange returns the admissible integer range of an integer format.
func FormatRange(format string) (lo, hi float64, ok bool) {
	switch format {
	case "int32":
		return math.MinInt32, math.MaxInt32, true
	case "int64", "":
		return -9.3e18, 9.3e18, false
	case "uint32":
		return 0, math.MaxUint32, true
	}
	return 0, 0, false
}

// Validate checks a decoded JSON value against a schema (Swagger 2.0 JSON-schema
// subset) and returns the list of violated keywords ("" list = valid).
// Each entry is "<path>: <keyword>".
func Validate(root J, s J, v any, path string) []string {
	var errs []string
	validateRec(root, s, v, path, &errs, 0)
	return errs
}

// StrictRequired makes a missing required property an error even when the
// property declares a default (plain JSON-schema reading; go-openapi/validate
// accepts it). Only set around a single call; not concurrency-safe.
var StrictRequired bool

// ValidateStrict is Validate under the plain JSON-schema reading of `required`.
func ValidateStrict(root J, s J, v any, path string) []string {
	StrictRequired = true
	defer func() { StrictRequired = false }()
	return Validate(root, s, v, path)
}

func typeOf(v any) string {
	switch x := v.(type) {
	case nil:
		return "null"
	case bool:
		return "boolean"
	case string:
		return "string"
	case float64:
		if isInteger(x) {
			return "integer"
		}
		return "number"
	case int, int64:
		return "integer"
	case json.Number:
		if _, err := x.Int64(); err == nil {
			return "integer"
		}
		return "number"
	case []any:
		return "array"
	case map[string]any:
		return "object"
	}
	return "unknown"
}

func validateRec(root J, s J, v any, path string, errs *[]string, depth int) {
	if depth > 40 {
		return
	}
	s = Resolve(root, s)
	add := func(k string) { *errs = append(*errs, path+": "+k) }
	vt := typeOf(v)
	if t, ok := s["type"].(string); ok && t != "" {
		okType := vt == t || (t == "number" && vt == "integer")
		if t == "file" {
			okType = true
		}
		if !okType {
			add("type")
			return
		}
	}
	if e, ok := s["enum"].(A); ok && len(e) > 0 {
		found := false
		for _, x := range e {
			if JSONEqual(x, v) {
				found = true
				break
			}
		}
		if !found {
			add("enum")
		}
	}
	if f, ok := num(v); ok && vt != "string" {
		if m, ok := num(s["minimum"]); ok {
			if f < m || (truthy(s["exclusiveMinimum"]) && f == m) {
				add("minimum")
			}
		}
		if m, ok := num(s["maximum"]); ok {
			if f > m || (truthy(s["exclusiveMaximum"]) && f == m) {
				add("maximum")
			}
		}
		if m, ok := num(s["multipleOf"]); ok && m > 0 {
			if !MultipleOf(f, m) {
				add("multipleOf")
			}
		}
		if t, _ := s["type"].(string); t == "integer" {
			if lo, hi, ok := FormatRange(str(s["format"])); ok && (f < lo || f > hi) {
				add("format")
			}
		}
	}
	if sv, ok := v.(string); ok {
		n := utf8.RuneCountInString(sv)
		if m, ok := num(s["minLength"]); ok && float64(n) < m {
			add("minLength")
		}
		if m, ok := num(s["maxLength"]); ok && float64(n) > m {
			add("maxLength")
		}
		if p, ok := s["pattern"].(string); ok && p != "" {
			if re, err := compile(p); err == nil && !re.MatchString(sv) {
				add("pattern")
			}
		}
		if f, ok := s["format"].(string); ok && f != "" && str(s["type"]) == "string" {
			if strfmt.Default.ContainsName(f) && !strfmt.Default.Validates(f, sv) {
				add("format")
			}
		}
	}
	if av, ok := v.([]any); ok {
		if m, ok := num(s["minItems"]); ok && float64(len(av)) < m {
			add("minItems")
		}
		if m, ok := num(s["maxItems"]); ok && float64(len(av)) > m {
			add("maxItems")
		}
		if truthy(s["uniqueItems"]) {
			for i := range av {
				for j := i + 1; j < len(av); j++ {
					if JSONEqual(av[i], av[j]) {
						add("uniqueItems")
						i = len(av)
						break
					}
				}
			}
		}
		switch it := s["items"].(type) {
		case J:
			for i, e := range av {
				validateRec(root, it, e, fmt.Sprintf("%s[%d]", path, i), errs, depth+1)
			}
		case A:
			for i, e := range av {
				if i < len(it) {
					if ij, ok := it[i].(J); ok {
						validateRec(root, ij, e, fmt.Sprintf("%s[%d]", path, i), errs, depth+1)
					}
				}
			}
		}
	}
	if ov, ok := v.(map[string]any); ok {
		if m, ok := num(s["minProperties"]); ok && float64(len(ov)) < m {
			add("minProperties")
		}
		if m, ok := num(s["maxProperties"]); ok && float64(len(ov)) > m {
			add("maxProperties")
		}
		props, _ := s["properties"].(J)
		for _, r := range asList(s["required"]) {
			if rn, ok := r.(string); ok {
				if _, has := ov[rn]; !has {
					// the reference validator (go-openapi/validate) takes a declared
					// default as satisfying `required`
					if ps, ok := props[rn].(J); ok && !StrictRequired {
						if _, hasDef := Resolve(root, ps)["default"]; hasDef || ps["default"] != nil {
							continue
						}
					}
					*errs = append(*errs, path+"."+rn+": required")
				}
			}
		}
		keys := make([]string, 0, len(ov))
		for k := range ov {
			keys = append(keys, k)
		}
		sort.Strings(keys)
		for _, k := range keys {
			if ps, ok := props[k].(J); ok {
				validateRec(root, ps, ov[k], path+"."+k, errs, depth+1)
				continue
			}
			switch ap := s["additionalProperties"].(type) {
			case J:
				validateRec(root, ap, ov[k], path+"."+k, errs, depth+1)
			case bool:
				if !ap {
					*errs = append(*errs, path+"."+k+": additionalProperties")
				}
			}
		}
	}
	for i, m := range asList(s["allOf"]) {
		if mj, ok := m.(J); ok {
			validateRec(root, mj, v, fmt.Sprintf("%s(allOf %d)", path, i), errs, depth+1)
		}
	}
}

func asList(v any) A {
	l, _ := v.(A)
	return l
}

// Decode parses JSON text into a generic value with float64 numbers.
func Decode(b []byte) (any, error) {
	var v any
	err := json.Unmarshal(b, &v)
	return v, err
}

// ValueEqual: JSON equality, and equality of the denoted value for the formats
// whose canonical text differs from the input text (date-time, duration).
func ValueEqual(format string, want, got any) bool {
	if JSONEqual(want, got) {
		return true
	}
	a, ok1 := want.(string)
	b, ok2 := got.(string)
	if !ok1 || !ok2 {
		return false
	}
	switch format {
	case "date-time":
		ta, ea := strfmt.ParseDateTime(a)
		tb, eb := strfmt.ParseDateTime(b)
		return ea == nil && eb == nil && time.Time(ta).Equal(time.Time(tb))
	case "duration":
		da, ea := strfmt.ParseDuration(a)
		db, eb := strfmt.ParseDuration(b)
		return ea == nil && eb == nil && da == db
	case "":
		// unknown position format: tolerate the date-time canonicalisation
		ta, ea := strfmt.ParseDateTime(a)
		tb, eb := strfmt.ParseDateTime(b)
		if ea == nil && eb == nil && len(a) >= 20 && len(b) >= 20 {
			return time.Time(ta).Equal(time.Time(tb))
		}
	}
	return false
}
