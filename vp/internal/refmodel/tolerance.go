package refmodel

import (
	"sort"
	"strings"
)

// Tolerances granted by property C02 / docs/reference/models/schemas.md, encoded once.
//
//  T1 "unknown properties are ignored unless strict mode": StripUndeclared.
//  T2 "an explicit zero value (0, "", false) of an optional property - or of a
//     required one that is read-only, has a default or is marked non-nullable -
//     may be treated as if the property were absent": ZeroPositions + Without.
//  T3 "untyped or property-less objects are not validated" and
//  T4 "tuples/additionalItems are partial": the generators of the checks avoid
//     these shapes (HasUnvalidatedShape tells).

// declaredProps returns the union of properties declared by s and its allOf members.
func declaredProps(root J, s J, into map[string]J, depth int) (openEnded bool) {
	if depth > 20 {
		return true
	}
	s = Resolve(root, s)
	if props, ok := s["properties"].(J); ok {
		for k, v := range props {
			if vj, ok := v.(J); ok {
				if _, dup := into[k]; !dup {
					into[k] = vj
				}
			}
		}
	}
	switch ap := s["additionalProperties"].(type) {
	case J:
		openEnded = true
	case bool:
		if ap {
			openEnded = true
		}
	}
	for _, m := range asList(s["allOf"]) {
		if mj, ok := m.(J); ok {
			if declaredProps(root, mj, into, depth+1) {
				openEnded = true
			}
		}
	}
	return
}

// StripUndeclared returns a copy of v without the object properties that the
// schema does not declare, wherever additionalProperties is absent or false.
func StripUndeclared(root J, s J, v any, depth int) any {
	if depth > 30 {
		return v
	}
	s = Resolve(root, s)
	switch x := v.(type) {
	case map[string]any:
		props := map[string]J{}
		open := declaredProps(root, s, props, 0)
		out := J{}
		for k, e := range x {
			if ps, ok := props[k]; ok {
				out[k] = StripUndeclared(root, ps, e, depth+1)
				continue
			}
			if open {
				if ap := additionalSchema(root, s); ap != nil {
					out[k] = StripUndeclared(root, ap, e, depth+1)
				} else {
					out[k] = e
				}
			}
		}
		return out
	case []any:
		out := make(A, len(x))
		switch it := s["items"].(type) {
		case J:
			for i, e := range x {
				out[i] = StripUndeclared(root, it, e, depth+1)
			}
		case A:
			for i, e := range x {
				if i < len(it) {
					if ij, ok := it[i].(J); ok {
						out[i] = StripUndeclared(root, ij, e, depth+1)
						continue
					}
				}
				out[i] = e
			}
		default:
			copy(out, x)
		}
		return out
	}
	return v
}

func additionalSchema(root J, s J) J {
	if ap, ok := s["additionalProperties"].(J); ok {
		return ap
	}
	for _, m := range asList(s["allOf"]) {
		if mj, ok := m.(J); ok {
			if ap := additionalSchema(root, Resolve(root, mj)); ap != nil {
				return ap
			}
		}
	}
	return nil
}

func isZero(s J, v any) bool {
	switch s["type"] {
	case "string":
		x, ok := v.(string)
		return ok && x == ""
	case "integer", "number":
		f, ok := num(v)
		return ok && f == 0
	case "boolean":
		b, ok := v.(bool)
		return ok && !b
	}
	return false
}

// ZeroPositions lists the paths (as key chains) of declared object properties
// of v that hold the zero value of their declared type and qualify for T2.
func ZeroPositions(root J, s J, v any, path []string, out *[][]string, depth int) {
	if depth > 30 {
		return
	}
	s = Resolve(root, s)
	switch x := v.(type) {
	case map[string]any:
		props := map[string]J{}
		declaredProps(root, s, props, 0)
		req := map[string]bool{}
		collectRequired(root, s, req, 0)
		keys := make([]string, 0, len(x))
		for k := range x {
			keys = append(keys, k)
		}
		sort.Strings(keys)
		for _, k := range keys {
			ps, ok := props[k]
			if !ok {
				if ap := additionalSchema(root, s); ap != nil {
					ZeroPositions(root, ap, x[k], append(append([]string{}, path...), k), out, depth+1)
				}
				continue
			}
			rs := Resolve(root, ps)
			p2 := append(append([]string{}, path...), k)
			if isZero(rs, x[k]) {
				nonNullable := false
				if b, ok := ps["x-nullable"].(bool); ok && !b {
					nonNullable = true
				}
				if b, ok := rs["x-nullable"].(bool); ok && !b {
					nonNullable = true
				}
				if !req[k] || truthy(ps["readOnly"]) || truthy(rs["readOnly"]) || ps["default"] != nil || rs["default"] != nil || nonNullable {
					*out = append(*out, p2)
				}
			}
			ZeroPositions(root, ps, x[k], p2, out, depth+1)
		}
	case []any:
		switch it := s["items"].(type) {
		case J:
			for i, e := range x {
				ZeroPositions(root, it, e, append(append([]string{}, path...), "#"+itoa(i)), out, depth+1)
			}
		case A:
			for i, e := range x {
				if i < len(it) {
					if ij, ok := it[i].(J); ok {
						ZeroPositions(root, ij, e, append(append([]string{}, path...), "#"+itoa(i)), out, depth+1)
					}
				}
			}
		}
	}
}

func collectRequired(root J, s J, into map[string]bool, depth int) {
	if depth > 20 {
		return
	}
	s = Resolve(root, s)
	for _, r := range asList(s["required"]) {
		into[str(r)] = true
	}
	for _, m := range asList(s["allOf"]) {
		if mj, ok := m.(J); ok {
			collectRequired(root, mj, into, depth+1)
		}
	}
}

func itoa(i int) string {
	if i == 0 {
		return "0"
	}
	var b []byte
	for i > 0 {
		b = append([]byte{byte('0' + i%10)}, b...)
		i /= 10
	}
	return string(b)
}

// Without returns a deep copy of v with the listed property paths removed.
func Without(v any, paths [][]string) any {
	out := deepCopy(v)
	for _, p := range paths {
		removeAt(out, p)
	}
	return out
}

func deepCopy(v any) any {
	switch x := v.(type) {
	case map[string]any:
		o := J{}
		for k, e := range x {
			o[k] = deepCopy(e)
		}
		return o
	case []any:
		o := make(A, len(x))
		for i, e := range x {
			o[i] = deepCopy(e)
		}
		return o
	}
	return v
}

func removeAt(v any, path []string) {
	for i, k := range path {
		last := i == len(path)-1
		switch x := v.(type) {
		case map[string]any:
			if last {
				delete(x, k)
				return
			}
			v = x[k]
		case []any:
			if !strings.HasPrefix(k, "#") {
				return
			}
			idx := 0
			for _, c := range k[1:] {
				idx = idx*10 + int(c-'0')
			}
			if idx >= len(x) || last {
				return
			}
			v = x[idx]
		default:
			return
		}
	}
}

// ContainsNull reports an explicit null anywhere in v.
func ContainsNull(v any) bool {
	switch x := v.(type) {
	case nil:
		return true
	case map[string]any:
		for _, e := range x {
			if ContainsNull(e) {
				return true
			}
		}
	case []any:
		for _, e := range x {
			if ContainsNull(e) {
				return true
			}
		}
	}
	return false
}
