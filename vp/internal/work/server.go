package work

import (
	"bufio"
	"bytes"
	_ "embed"
	"encoding/json"
	"fmt"
	"os"
	"path/filepath"
	"strings"
	"sync"
	"time"
)

//go:embed harness/server_shim.go.txt
var serverShim string

//go:embed harness/client_shim.go.txt
var clientShim string

// ServerProg is a compiled program wrapping a generated server (and client).
type ServerProg struct {
	Dir        string
	Bin        string
	WithClient bool
	Gen        Result
	GenClient  Result
	Build      Result
	Stage      string // "" usable, else generate-server | generate-client | build
	Reason     string
	Info       map[string]any
}

func (p *ServerProg) Usable() bool { return p.Stage == "" }

var (
	srvCache   = map[string]*ServerProg{}
	srvCacheMu sync.Mutex
)

// BuildServer generates (server, optionally client) for spec with application
// name "verif" and compiles the reflection harness around it (cached per process).
func BuildServer(specJSON []byte, withClient bool, extra ...string) *ServerProg {
	key := fmt.Sprintf("%v\x00%s\x00%s", withClient, strings.Join(extra, " "), specJSON)
	srvCacheMu.Lock()
	defer srvCacheMu.Unlock()
	if p, ok := srvCache[key]; ok {
		return p
	}
	p := buildServer(specJSON, key, withClient, extra)
	srvCache[key] = p
	return p
}

// Drop removes the program's files (and its cache entry).
func (p *ServerProg) Drop() {
	srvCacheMu.Lock()
	defer srvCacheMu.Unlock()
	for k, v := range srvCache {
		if v == p {
			delete(srvCache, k)
		}
	}
	_ = os.RemoveAll(filepath.Dir(p.Dir))
}

// BuildServerFromFile is BuildServer for a spec rendering given as file content with
// the extension of name (.json / .yaml); not cached.
func BuildServerFromFile(name string, content []byte, withClient bool, extra ...string) *ServerProg {
	return buildServerNamed(content, "file:"+name+"\x00"+string(content)+strings.Join(extra, " "), withClient, extra, "swagger"+filepath.Ext(name))
}

func buildServer(specJSON []byte, key string, withClient bool, extra []string) *ServerProg {
	return buildServerNamed(specJSON, key, withClient, extra, "swagger.json")
}

func buildServerNamed(specJSON []byte, key string, withClient bool, extra []string, fileName string) *ServerProg {
	p := &ServerProg{WithClient: withClient}
	p.Dir = NewModule("server:" + key)
	specPath := filepath.Join(p.Dir, fileName)
	if err := os.WriteFile(specPath, specJSON, 0o644); err != nil {
		panic(err)
	}
	args := append([]string{"generate", "server", "-q", "-A", "verif", "-f", specPath, "-t", p.Dir}, extra...)
	p.Gen = SwaggerGen(p.Dir, args...)
	if !p.Gen.OK() {
		p.Stage, p.Reason = "generate-server", tail(p.Gen.Out, 1500)
		return p
	}
	if withClient {
		cargs := append([]string{"generate", "client", "-q", "-A", "verif", "-f", specPath, "-t", p.Dir}, extra...)
		p.GenClient = SwaggerGen(p.Dir, cargs...)
		if !p.GenClient.OK() {
			p.Stage, p.Reason = "generate-client", tail(p.GenClient.Out, 1500)
			return p
		}
	}
	hdir := filepath.Join(p.Dir, "cmd", "harness")
	_ = os.MkdirAll(hdir, 0o755)
	src := strings.ReplaceAll(serverShim, "SERVERPKGNAME", "restapi")
	src = strings.ReplaceAll(src, "SERVERPKG", "restapi")
	_ = os.WriteFile(filepath.Join(hdir, "server_shim.go"), []byte(src), 0o644)
	if withClient {
		csrc := strings.ReplaceAll(clientShim, "CLIENTPKG", "client")
		_ = os.WriteFile(filepath.Join(hdir, "client_shim.go"), []byte(csrc), 0o644)
	}
	p.Bin = filepath.Join(p.Dir, "harness.bin")
	p.Build = GoBuild(p.Dir, p.Bin, "./cmd/harness")
	if !p.Build.OK() {
		p.Stage, p.Reason = "build", tail(p.Build.Out, 3000)
		return p
	}
	return p
}

// Plan is the response the handler is told to produce.
type Plan struct {
	Status  int                 `json:"status"`
	Headers map[string][]string `json:"headers,omitempty"`
	Body    json.RawMessage     `json:"body,omitempty"`
	RawBody string              `json:"raw_body,omitempty"`
}

// SrvReq is one line sent to the harness.
type SrvReq struct {
	Op      string                     `json:"op"`
	Method  string                     `json:"method,omitempty"`
	URL     string                     `json:"url,omitempty"`
	Headers map[string][]string        `json:"headers,omitempty"`
	Body    string                     `json:"body,omitempty"`
	Plan    *Plan                      `json:"plan,omitempty"`
	Key     string                     `json:"key,omitempty"`
	Params  map[string]json.RawMessage `json:"params,omitempty"`
	Auth    map[string]string          `json:"auth,omitempty"`
}

type Observed struct {
	Reached         string                     `json:"reached,omitempty"`
	Params          map[string]json.RawMessage `json:"params,omitempty"`
	ParamErrs       map[string]string          `json:"param_errs,omitempty"`
	Principal       json.RawMessage            `json:"principal,omitempty"`
	HasPrincipalArg bool                       `json:"has_principal_arg,omitempty"`
	AuthCalls       []string                   `json:"auth_calls,omitempty"`
}

type Wire struct {
	Method  string              `json:"method"`
	URL     string              `json:"url"`
	Headers map[string][]string `json:"headers"`
	Body    string              `json:"body"`
}

type ClientResult struct {
	Unknown    bool                       `json:"unknown,omitempty"`
	SetErrs    map[string]string          `json:"set_errs,omitempty"`
	ResultType string                     `json:"result_type,omitempty"`
	Result     map[string]json.RawMessage `json:"result,omitempty"`
	ErrorType  string                     `json:"error_type,omitempty"`
	ErrorText  string                     `json:"error_text,omitempty"`
	ErrorCode  int                        `json:"error_code,omitempty"`
	ErrorValue map[string]json.RawMessage `json:"error_value,omitempty"`
	Wire       *Wire                      `json:"wire,omitempty"`
}

// SrvResp is one line answered by the harness.
type SrvResp struct {
	Error       string              `json:"error,omitempty"`
	Panic       string              `json:"panic,omitempty"`
	PanicSite   string              `json:"panic_site,omitempty"`
	Status      int                 `json:"status,omitempty"`
	RespHeaders map[string][]string `json:"resp_headers,omitempty"`
	RespBody    string              `json:"resp_body,omitempty"`
	Observed    *Observed           `json:"observed,omitempty"`
	Client      *ClientResult       `json:"client,omitempty"`
	Info        map[string]any      `json:"info,omitempty"`
}

// Exec runs a batch through the harness binary (one process per batch).
func (p *ServerProg) Exec(reqs []SrvReq) ([]SrvResp, error) {
	var in bytes.Buffer
	enc := json.NewEncoder(&in)
	for _, r := range reqs {
		if err := enc.Encode(r); err != nil {
			return nil, err
		}
	}
	stdout, stderr, res := RunSplit(p.Dir, 3*time.Minute, in.Bytes(), p.Bin)
	if res.Err != nil {
		return nil, fmt.Errorf("harness failed: %v\n%s", res.Err, tail(stderr, 3000))
	}
	var out []SrvResp
	sc := bufio.NewScanner(strings.NewReader(stdout))
	sc.Buffer(make([]byte, 1<<20), 64<<20)
	for sc.Scan() {
		var r SrvResp
		if err := json.Unmarshal(sc.Bytes(), &r); err != nil {
			return nil, fmt.Errorf("bad harness line: %v: %.300s", err, sc.Text())
		}
		out = append(out, r)
	}
	if len(out) != len(reqs) {
		return nil, fmt.Errorf("harness answered %d of %d requests\n%s", len(out), len(reqs), tail(stderr, 3000))
	}
	return out, nil
}

// Norm mirrors the shim's name normalisation.
func Norm(s string) string {
	var sb strings.Builder
	for _, r := range strings.ToLower(s) {
		if (r >= 'a' && r <= 'z') || (r >= '0' && r <= '9') || r > 127 {
			sb.WriteRune(r)
		}
	}
	return sb.String()
}
