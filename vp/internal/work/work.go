// Package work generates code with the swagger binary built from /repo's
// working tree and compiles it in scratch modules.
package work

import (
	"bytes"
	"context"
	"crypto/sha256"
	"encoding/hex"
	"fmt"
	"os"
	"os/exec"
	"path/filepath"
	"regexp"
	"sort"
	"strings"
	"sync"
	"time"
)

// ModuleName is the module path of every generated scratch module (the base
// import path legitimately ends up in generated code, so it is kept constant).
const ModuleName = "verifgen"

func env(k, def string) string {
	if v := os.Getenv(k); v != "" {
		return v
	}
	return def
}

// Repo is the go-swagger tree under test.
func Repo() string { return env("VERIF_REPO", "/repo") }

// Swagger is the CLI binary built by the driver from the working tree.
func Swagger() string { return os.Getenv("VERIF_SWAGGER") }

var (
	scratchOnce sync.Once
	scratchDir  string
)

// Scratch returns this process's scratch directory.
func Scratch() string {
	scratchOnce.Do(func() {
		base := env("VERIF_SCRATCH", os.TempDir())
		d, err := os.MkdirTemp(base, "work-")
		if err != nil {
			panic(err)
		}
		scratchDir = d
	})
	return scratchDir
}

func goEnv() []string {
	e := os.Environ()
	e = append(e, "GOFLAGS=-mod=mod", "GOPROXY=off", "GOSUMDB=off", "GOTOOLCHAIN=local", "GO111MODULE=on")
	return e
}

var requireRe = regexp.MustCompile(`(?s)require \((.*?)\)`)

var (
	modOnce sync.Once
	goMod   string
	goSum   []byte
)

func moduleFiles() (string, []byte) {
	modOnce.Do(func() {
		b, err := os.ReadFile(filepath.Join(Repo(), "go.mod"))
		if err != nil {
			panic(err)
		}
		var reqs []string
		for _, m := range requireRe.FindAllStringSubmatch(string(b), -1) {
			for _, l := range strings.Split(m[1], "\n") {
				l = strings.TrimSpace(l)
				if l == "" || strings.HasPrefix(l, "//") {
					continue
				}
				reqs = append(reqs, "\t"+l)
			}
		}
		goMod = "module " + ModuleName + "\n\ngo 1.21\n\nrequire (\n" + strings.Join(reqs, "\n") + "\n)\n"
		goSum, err = os.ReadFile(filepath.Join(Repo(), "go.sum"))
		if err != nil {
			panic(err)
		}
	})
	return goMod, goSum
}

// NewModule creates an empty scratch module directory named after key
// (<scratch>/<hash>/verifgen) and returns its path.
func NewModule(key string) string {
	h := sha256.Sum256([]byte(key))
	dir := filepath.Join(Scratch(), hex.EncodeToString(h[:8]), ModuleName)
	_ = os.RemoveAll(filepath.Dir(dir))
	if err := os.MkdirAll(dir, 0o755); err != nil {
		panic(err)
	}
	InitModule(dir)
	return dir
}

// InitModule writes go.mod / go.sum into dir.
func InitModule(dir string) {
	m, s := moduleFiles()
	if err := os.WriteFile(filepath.Join(dir, "go.mod"), []byte(m), 0o644); err != nil {
		panic(err)
	}
	if err := os.WriteFile(filepath.Join(dir, "go.sum"), s, 0o644); err != nil {
		panic(err)
	}
}

// Result of running a command.
type Result struct {
	Out      string
	Err      error
	ExitCode int
	TimedOut bool
	Dur      time.Duration
}

func (r Result) OK() bool { return r.Err == nil }

// Run executes a command in dir with a deadline.
func Run(dir string, timeout time.Duration, stdin []byte, name string, args ...string) Result {
	ctx, cancel := context.WithTimeout(context.Background(), timeout)
	defer cancel()
	cmd := exec.CommandContext(ctx, name, args...)
	cmd.Dir = dir
	cmd.Env = goEnv()
	var buf bytes.Buffer
	cmd.Stdout = &buf
	cmd.Stderr = &buf
	if stdin != nil {
		cmd.Stdin = bytes.NewReader(stdin)
	}
	start := time.Now()
	err := cmd.Run()
	r := Result{Out: buf.String(), Err: err, Dur: time.Since(start)}
	if ctx.Err() == context.DeadlineExceeded {
		r.TimedOut = true
	}
	if ee, ok := err.(*exec.ExitError); ok {
		r.ExitCode = ee.ExitCode()
	} else if err != nil {
		r.ExitCode = -1
	}
	return r
}

// RunSplit is Run with stdout and stderr kept apart.
func RunSplit(dir string, timeout time.Duration, stdin []byte, name string, args ...string) (stdout, stderr string, r Result) {
	ctx, cancel := context.WithTimeout(context.Background(), timeout)
	defer cancel()
	cmd := exec.CommandContext(ctx, name, args...)
	cmd.Dir = dir
	cmd.Env = goEnv()
	var so, se bytes.Buffer
	cmd.Stdout = &so
	cmd.Stderr = &se
	if stdin != nil {
		cmd.Stdin = bytes.NewReader(stdin)
	}
	start := time.Now()
	err := cmd.Run()
	r = Result{Err: err, Dur: time.Since(start)}
	if ctx.Err() == context.DeadlineExceeded {
		r.TimedOut = true
	}
	if ee, ok := err.(*exec.ExitError); ok {
		r.ExitCode = ee.ExitCode()
	} else if err != nil {
		r.ExitCode = -1
	}
	return so.String(), se.String(), r
}

// SwaggerGen runs `swagger <args>` in dir.
func SwaggerGen(dir string, args ...string) Result {
	return Run(dir, 5*time.Minute, nil, Swagger(), args...)
}

// GoBuild runs `go build -o out pkgs...` in dir.
func GoBuild(dir, out string, pkgs ...string) Result {
	args := []string{"build"}
	if out != "" {
		args = append(args, "-o", out)
	}
	args = append(args, pkgs...)
	return Run(dir, 10*time.Minute, nil, "go", args...)
}

// GoVet type-checks without linking (go vet is slower; `go build ./...` with no -o discards results).
func GoBuildAll(dir string) Result {
	return Run(dir, 10*time.Minute, nil, "go", "build", "./...")
}

// Tree hashes every regular file under dir (relative path -> sha256), skipping skip().
func Tree(dir string, skip func(rel string) bool) map[string]string {
	out := map[string]string{}
	_ = filepath.Walk(dir, func(p string, info os.FileInfo, err error) error {
		if err != nil || info.IsDir() {
			return nil
		}
		rel, _ := filepath.Rel(dir, p)
		if skip != nil && skip(rel) {
			return nil
		}
		b, err := os.ReadFile(p)
		if err != nil {
			return nil
		}
		h := sha256.Sum256(b)
		out[rel] = hex.EncodeToString(h[:])
		return nil
	})
	return out
}

// SortedKeys of a string map.
func SortedKeys[V any](m map[string]V) []string {
	out := make([]string, 0, len(m))
	for k := range m {
		out = append(out, k)
	}
	sort.Strings(out)
	return out
}

// CompileErrClass abstracts a compiler message (identifiers and positions erased).
func CompileErrClass(out string) string {
	for _, l := range strings.Split(out, "\n") {
		l = strings.TrimSpace(l)
		if l == "" || strings.HasPrefix(l, "#") {
			continue
		}
		// path:line:col: message
		parts := strings.SplitN(l, ": ", 2)
		msg := l
		file := ""
		if len(parts) == 2 && strings.Contains(parts[0], ".go:") {
			msg = parts[1]
			file = parts[0]
			if i := strings.Index(file, ".go:"); i >= 0 {
				file = file[:i+3]
			}
			file = fileRole(filepath.Base(file))
		}
		msg = regexp.MustCompile(`"[^"]*"`).ReplaceAllString(msg, `"_"`)
		msg = regexp.MustCompile("`[^`]*`").ReplaceAllString(msg, "_")
		msg = regexp.MustCompile(`\b[A-Za-z_][A-Za-z0-9_]*\.[A-Za-z_][A-Za-z0-9_.]*\b`).ReplaceAllString(msg, "_")
		msg = regexp.MustCompile(`\b[a-z_]*[A-Z0-9_][A-Za-z0-9_]*\b`).ReplaceAllString(msg, "_")
		msg = regexp.MustCompile(`\s+`).ReplaceAllString(msg, " ")
		if len(msg) > 90 {
			msg = msg[:90]
		}
		return fmt.Sprintf("%s|%s", file, msg)
	}
	return "unknown"
}

// fileRole maps a generated file name to its role (template family).
func fileRole(base string) string {
	switch {
	case strings.HasSuffix(base, "_parameters.go"):
		return "parameters"
	case strings.HasSuffix(base, "_responses.go"):
		return "responses"
	case strings.HasSuffix(base, "_urlbuilder.go"):
		return "urlbuilder"
	case strings.HasSuffix(base, "_client.go"):
		return "client"
	case strings.HasSuffix(base, "_api.go"):
		return "api-builder"
	case base == "embedded_spec.go" || base == "doc.go" || base == "server.go" || base == "main.go" || strings.HasPrefix(base, "configure_"):
		return base
	}
	return "other"
}
