// Package pbt is the small frame shared by all property packages: it drives
// rapid, separates search-phase statistics from shrinking, tolerates listed
// known findings (counting them), writes replay files and the per-shard
// statistics that the driver (/verif/vcheck) merges into the evidence file.
package pbt

import (
	"crypto/sha256"
	"encoding/hex"
	"encoding/json"
	"flag"
	"fmt"
	"os"
	"path/filepath"
	"runtime/debug"
	"sort"
	"strconv"
	"strings"
	"sync"
	"testing"
	"time"

	"pgregory.net/rapid"
)

// Violation is one failed assertion. Sig is the seed-independent signature used
// for known-finding matching (property|assertion|feature...).
type Violation struct {
	Sig string `json:"sig"`
	Msg string `json:"msg"`
}

// Outcome is what a Check returns for one case.
type Outcome struct {
	Violations []Violation
	// Classes are labels for the histogram (feature catalogue cells, verdict classes).
	Classes []string
	// NonTrivial lists the keys of the distinct non-trivial sub-cases this
	// case contained ("" entries are ignored). The number of distinct keys over the
	// run is the evidence's distinct_nontrivial.
	NonTrivial []string
	// Evals is the number of inner evaluations executed (default 1).
	Evals int
	// Discard: the draw was outside the property's domain (e.g. rejected by
	// validate.Spec). Counted, asserts nothing.
	Discard bool
	// Sample is a compact rendering of the case for the evidence (optional).
	Sample any
}

func (o *Outcome) Fail(sig, format string, args ...any) {
	o.Violations = append(o.Violations, Violation{Sig: sig, Msg: fmt.Sprintf(format, args...)})
}

func (o *Outcome) Class(c ...string) { o.Classes = append(o.Classes, c...) }

func (o *Outcome) NT(key ...string) { o.NonTrivial = append(o.NonTrivial, key...) }

// Prop describes one property check. C must round-trip through encoding/json.
type Prop[C any] struct {
	ID          string
	Rule        string
	Assumptions []string
	Gen         func(t *rapid.T) C
	Check       func(c C) Outcome
}

// KnownFinding mirrors an entry of /verif/known_findings.json.
type KnownFinding struct {
	Property  string `json:"property"`
	Signature string `json:"signature"`
	Status    string `json:"status"` // "known" | "fixed"
	Commit    string `json:"commit,omitempty"`
	What      string `json:"what"`
	Corpus    string `json:"corpus,omitempty"`
	Scope     string `json:"scope,omitempty"` // "corpus": only the corpus reproduction is excused
}

// ShardStats is written by each test process and merged by the driver.
type ShardStats struct {
	Property       string            `json:"property"`
	Mode           string            `json:"mode"`
	Seed           uint64            `json:"seed"`
	Cases          int               `json:"cases"`
	Evals          int               `json:"evals"`
	Discarded      int               `json:"discarded"`
	Classes        map[string]int    `json:"classes"`
	NonTrivialKeys []string          `json:"nontrivial_keys"`
	ExcludedKnown  map[string]int    `json:"excluded_known"`
	Samples        []any             `json:"samples"`
	Violations     []ReplayFile      `json:"violations"`
	ShrinkRuns     int               `json:"shrink_runs"`
	WallS          float64           `json:"wall_s"`
	Rule           string            `json:"rule"`
	Assumptions    []string          `json:"assumptions"`
	CorpusResults  []CorpusResult    `json:"corpus_results,omitempty"`
	Extra          map[string]any    `json:"extra,omitempty"`
	KnownExamples  map[string]string `json:"known_examples,omitempty"`
}

type CorpusResult struct {
	File       string      `json:"file"`
	Expect     string      `json:"expect"`
	Sigs       []string    `json:"sigs"`
	Violations []Violation `json:"violations,omitempty"`
}

// ReplayFile is the on-disk format of corpus and replay files.
type ReplayFile struct {
	Property   string          `json:"property"`
	Expect     string          `json:"expect,omitempty"` // "pass" | "known:<sig>" (corpus only)
	Note       string          `json:"note,omitempty"`
	Case       json.RawMessage `json:"case"`
	Violations []Violation     `json:"violations,omitempty"`
	Seed       uint64          `json:"seed,omitempty"`
	Tier       string          `json:"tier,omitempty"`
	Path       string          `json:"-"`
}

// Env gives access to the run configuration (from environment variables set by the driver).
type Env struct {
	Mode      string // search | corpus | replay
	Tier      string
	Out       string
	ReplayDir string
	Corpus    string
	Replay    string
	Known     map[string]KnownFinding
	Scratch   string
	Swagger   string
}

func Getenv(k, def string) string {
	if v := os.Getenv(k); v != "" {
		return v
	}
	return def
}

func LoadEnv(id string) *Env {
	e := &Env{
		Mode:      Getenv("VERIF_MODE", "search"),
		Tier:      Getenv("VERIF_TIER", "quick"),
		Out:       os.Getenv("VERIF_OUT"),
		ReplayDir: Getenv("VERIF_REPLAY_DIR", "/verif/replays/"+id),
		Corpus:    Getenv("VERIF_CORPUS", "/verif/corpus/"+id),
		Replay:    os.Getenv("VERIF_REPLAY"),
		Scratch:   Getenv("VERIF_SCRATCH", os.TempDir()),
		Swagger:   os.Getenv("VERIF_SWAGGER"),
		Known:     map[string]KnownFinding{},
	}
	kf := Getenv("VERIF_KNOWN", "/verif/known_findings.json")
	if b, err := os.ReadFile(kf); err == nil {
		var doc struct {
			Findings []KnownFinding `json:"findings"`
		}
		if err := json.Unmarshal(b, &doc); err == nil {
			for _, f := range doc.Findings {
				// scope "corpus": a region the generator avoids by construction; its signature only excuses the
				// corpus reproduction, never a violation met by the random search
				if f.Property == id && f.Status == "known" && !(f.Scope == "corpus" && e.Mode != "corpus" && e.Mode != "replay") {
					e.Known[f.Signature] = f
				}
			}
		}
	}
	return e
}

// Tier returns q for the quick tier and th for thorough.
func (e *Env) N(q, th int) int {
	n := q
	if e.Tier == "thorough" {
		n = th
	}
	if s := os.Getenv("VERIF_SCALE"); s != "" {
		if f, err := strconv.ParseFloat(s, 64); err == nil && f > 0 {
			n = int(float64(n) * f)
			if n < 1 {
				n = 1
			}
		}
	}
	return n
}

func hashKey(s string) string {
	h := sha256.Sum256([]byte(s))
	return hex.EncodeToString(h[:8])
}

// SafeCheck runs check and converts a panic of the *harness or code under test*
// that the check did not handle itself into a violation with signature
// <id>|harness-panic (never silently a pass).
func SafeCheck[C any](p Prop[C], c C) (o Outcome) {
	defer func() {
		if r := recover(); r != nil {
			o.Violations = append(o.Violations, Violation{
				Sig: p.ID + "|unhandled-panic|" + TopFrame(debug.Stack(), ""),
				Msg: fmt.Sprintf("panic: %v\n%s", r, debug.Stack()),
			})
		}
	}()
	return p.Check(c)
}

// TopFrame extracts the first function of the stack (after the panic frames)
// whose name contains filter ("" = any non-runtime frame).
func TopFrame(stack []byte, filter string) string {
	lines := strings.Split(string(stack), "\n")
	seenPanic := false
	for _, l := range lines {
		if strings.HasPrefix(l, "panic(") {
			seenPanic = true
			continue
		}
		if !seenPanic || strings.HasPrefix(l, "\t") || l == "" {
			continue
		}
		if strings.HasPrefix(l, "runtime.") || strings.HasPrefix(l, "runtime/") {
			continue
		}
		if filter != "" && !strings.Contains(l, filter) {
			continue
		}
		if i := strings.LastIndex(l, "("); i > 0 {
			l = l[:i]
		}
		if i := strings.LastIndex(l, "/"); i >= 0 {
			l = l[i+1:]
		}
		return l
	}
	return "unknown"
}

// Main is called from the single Test function of each property package.
func Main[C any](t *testing.T, p Prop[C]) {
	env := LoadEnv(p.ID)
	switch env.Mode {
	case "replay":
		runReplay(t, p, env)
	case "corpus":
		runCorpus(t, p, env)
	default:
		runSearch(t, p, env)
	}
}

// Fuzz runs the property under Go's native coverage-guided fuzzer: the fuzzer's bytes drive the same generator
// (rapid.MakeFuzz), the same oracle decides. A violation that is not a listed finding fails the target after
// leaving a replay file for the driver.
func Fuzz[C any](f *testing.F, p Prop[C]) {
	env := LoadEnv(p.ID)
	// seed corpus: byte streams long enough for the generator to complete (fixed constants, not a random source)
	for i := uint64(1); i <= 6; i++ {
		b := make([]byte, 16384)
		x := 0x9E3779B97F4A7C15 * i
		for k := range b {
			x ^= x << 13
			x ^= x >> 7
			x ^= x << 17
			b[k] = byte(x >> 24)
		}
		f.Add(b)
	}
	f.Fuzz(rapid.MakeFuzz(func(rt *rapid.T) {
		c := p.Gen(rt)
		o := SafeCheck(p, c)
		for _, v := range o.Violations {
			if _, ok := env.Known[v.Sig]; ok {
				continue
			}
			cb, _ := json.Marshal(c)
			rf := ReplayFile{Property: p.ID, Note: "found by the native fuzzer", Case: cb, Violations: []Violation{v}}
			b, _ := json.MarshalIndent(rf, "", " ")
			_ = os.MkdirAll(env.ReplayDir, 0o755)
			_ = os.WriteFile(filepath.Join(env.ReplayDir, "fuzz-"+hashKey(v.Sig)+".json"), b, 0o644)
			rt.Fatalf("%s", v.Sig)
		}
	}))
}

func readReplay(path string) (*ReplayFile, error) {
	b, err := os.ReadFile(path)
	if err != nil {
		return nil, err
	}
	var rf ReplayFile
	if err := json.Unmarshal(b, &rf); err != nil {
		return nil, fmt.Errorf("%s: %w", path, err)
	}
	rf.Path = path
	return &rf, nil
}

func runReplay[C any](t *testing.T, p Prop[C], env *Env) {
	rf, err := readReplay(env.Replay)
	if err != nil {
		t.Fatalf("cannot read replay: %v", err)
	}
	var c C
	if err := json.Unmarshal(rf.Case, &c); err != nil {
		t.Fatalf("cannot decode case: %v", err)
	}
	o := SafeCheck(p, c)
	for _, v := range o.Violations {
		fmt.Printf("REPLAY-VIOLATION sig=%s\n%s\n", v.Sig, v.Msg)
	}
	if len(o.Violations) == 0 {
		fmt.Println("REPLAY-PASS")
	} else {
		t.Fail()
	}
}

func runCorpus[C any](t *testing.T, p Prop[C], env *Env) {
	start := time.Now()
	st := &ShardStats{Property: p.ID, Mode: "corpus", Classes: map[string]int{}, ExcludedKnown: map[string]int{}}
	files, _ := filepath.Glob(filepath.Join(env.Corpus, "*.json"))
	sort.Strings(files)
	for _, f := range files {
		rf, err := readReplay(f)
		if err != nil {
			t.Fatalf("corpus: %v", err)
		}
		var c C
		if err := json.Unmarshal(rf.Case, &c); err != nil {
			t.Fatalf("corpus %s: cannot decode case: %v", f, err)
		}
		o := SafeCheck(p, c)
		cr := CorpusResult{File: f, Expect: rf.Expect, Violations: o.Violations}
		for _, v := range o.Violations {
			cr.Sigs = append(cr.Sigs, v.Sig)
		}
		st.CorpusResults = append(st.CorpusResults, cr)
		st.Cases++
	}
	st.WallS = time.Since(start).Seconds()
	writeStats(t, env, st)
}

func writeStats(t *testing.T, env *Env, st *ShardStats) {
	if env.Out == "" {
		b, _ := json.MarshalIndent(st, "", " ")
		if len(b) > 4000 {
			b = b[:4000]
		}
		t.Logf("stats: %s", b)
		return
	}
	b, err := json.Marshal(st)
	if err != nil {
		t.Fatalf("stats: %v", err)
	}
	if err := os.WriteFile(env.Out, b, 0o644); err != nil {
		t.Fatalf("stats: %v", err)
	}
}

func rapidSeed() uint64 {
	f := flag.Lookup("rapid.seed")
	if f == nil {
		return 0
	}
	v, _ := strconv.ParseUint(f.Value.String(), 10, 64)
	return v
}

const maxSamples = 6

func runSearch[C any](t *testing.T, p Prop[C], env *Env) {
	start := time.Now()
	st := &ShardStats{Property: p.ID, Mode: "search", Seed: rapidSeed(), Classes: map[string]int{},
		ExcludedKnown: map[string]int{}, Rule: p.Rule, Assumptions: p.Assumptions, KnownExamples: map[string]string{}}
	nt := map[string]struct{}{}
	var mu sync.Mutex
	failed := false
	var lastFail *ReplayFile
	targetSig := ""
	pending := ""
	if env.Out != "" {
		pending = env.Out + ".pending"
	}
	collect := os.Getenv("VERIF_COLLECT") != "" // triage mode: count every signature, never fail

	t.Run("search", func(t *testing.T) {
		rapid.Check(t, func(rt *rapid.T) {
			c := p.Gen(rt)
			if pending != "" {
				// crash guard: a fatal runtime error (stack overflow, concurrent map
				// write) cannot be recovered; the driver turns the case left here
				// into a replay file when the process dies.
				if cb, err := json.Marshal(c); err == nil {
					_ = os.WriteFile(pending, cb, 0o644)
				}
			}
			o := SafeCheck(p, c)
			if pending != "" {
				_ = os.Remove(pending)
			}
			mu.Lock()
			defer mu.Unlock()
			var fresh []Violation
			for _, v := range o.Violations {
				if _, ok := env.Known[v.Sig]; ok || collect {
					if !failed {
						st.ExcludedKnown[v.Sig]++
						if _, ok := st.KnownExamples[v.Sig]; !ok {
							st.KnownExamples[v.Sig] = v.Msg
							if collect {
								// triage: keep one example case per signature
								cb, _ := json.Marshal(c)
								rf := ReplayFile{Property: p.ID, Case: cb, Violations: []Violation{v}}
								b, _ := json.MarshalIndent(rf, "", " ")
								_ = os.MkdirAll(env.ReplayDir, 0o755)
								_ = os.WriteFile(filepath.Join(env.ReplayDir, "collect-"+hashKey(v.Sig)+".json"), b, 0o644)
							}
						}
					}
					continue
				}
				fresh = append(fresh, v)
			}
			if !failed {
				st.Cases++
				if o.Discard {
					st.Discarded++
				}
				ev := o.Evals
				if ev == 0 {
					ev = 1
				}
				st.Evals += ev
				for _, cl := range o.Classes {
					st.Classes[cl]++
				}
				for _, k := range o.NonTrivial {
					if k != "" {
						nt[hashKey(k)] = struct{}{}
					}
				}
				if o.Sample != nil && (len(st.Samples) < maxSamples/2 || (len(o.NonTrivial) > 0 && len(st.Samples) < maxSamples)) {
					st.Samples = append(st.Samples, o.Sample)
				}
			} else {
				st.ShrinkRuns++
			}
			if failed {
				// shrinking: stay on the signature that failed first, so that the
				// minimal case shows the same violation (rapid only compares
				// the failing call site, not the message).
				var same []Violation
				for _, v := range fresh {
					if v.Sig == targetSig {
						same = append(same, v)
					}
				}
				fresh = same
			}
			if len(fresh) > 0 {
				if !failed {
					failed = true
					targetSig = fresh[0].Sig
					fresh = fresh[:1]
				}
				cb, _ := json.Marshal(c)
				lastFail = &ReplayFile{Property: p.ID, Case: cb, Violations: fresh, Seed: st.Seed, Tier: env.Tier}
				// the message must be deterministic (rapid re-runs the case and compares)
				rt.Fatalf("%s", targetSig)
			}
		})
	})

	if lastFail != nil {
		_ = os.MkdirAll(env.ReplayDir, 0o755)
		b, _ := json.MarshalIndent(lastFail, "", " ")
		name := filepath.Join(env.ReplayDir, hashKey(string(lastFail.Case))+".json")
		if err := os.WriteFile(name, b, 0o644); err == nil {
			lastFail.Path = name
		}
		fmt.Printf("FOUND property=%s sig=%s replay=%s\n", p.ID, lastFail.Violations[0].Sig, name)
		rf := *lastFail
		rf.Note = name
		st.Violations = append(st.Violations, rf)
	}
	for k := range nt {
		st.NonTrivialKeys = append(st.NonTrivialKeys, k)
	}
	sort.Strings(st.NonTrivialKeys)
	st.WallS = time.Since(start).Seconds()
	writeStats(t, env, st)
}

func trunc(s string, n int) string {
	if len(s) > n {
		return s[:n] + "…"
	}
	return s
}

// Recover runs f and reports a panic as (message, top frame in pkgFilter, stack).
func Recover(f func()) (panicked bool, msg string, stack []byte) {
	defer func() {
		if r := recover(); r != nil {
			panicked = true
			msg = fmt.Sprint(r)
			stack = debug.Stack()
		}
	}()
	f()
	return
}
