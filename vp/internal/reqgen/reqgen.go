// Package reqgen composes abstract HTTP requests for an operation of a spec tree.
package reqgen

import (
	"encoding/json"
	"fmt"
	"strings"

	"pgregory.net/rapid"

	"verif/internal/refmodel"
	"verif/internal/specgen"
)

type J = specgen.J
type A = specgen.A

// Opts steer ValidRequest.
type Opts struct {
	// Force: "<in>:<name>" -> typed value to send (overrides generation); for "body:body" a JSON value.
	Force map[string]any
	// Omit: parameters to leave out (must be optional to stay valid).
	Omit map[string]bool
	// AllOptional: include every optional parameter.
	AllOptional bool
	// OptionalPct: chance (percent) to include an optional parameter (default 50).
	OptionalPct int
	// ContentType overrides the chosen request media type.
	ContentType string
}

func str(v any) string { s, _ := v.(string); return s }

func truthy(v any) bool { b, _ := v.(bool); return b }

// ValidRequest builds a request to (template, method) of doc that is intended
// to satisfy every declared parameter. ok=false when some value could not be
// generated or encoded.
func ValidRequest(t *rapid.T, label string, doc J, template, method string, o Opts) (*refmodel.Request, bool) {
	op := refmodel.FindOp(doc, template, method)
	if op == nil {
		return nil, false
	}
	r := &refmodel.Request{Method: method, Template: template, PathParams: map[string]string{}, Query: map[string][]string{}, Header: map[string][]string{}, Form: map[string][]string{}, Typed: map[string]any{}}
	pct := o.OptionalPct
	if pct == 0 {
		pct = 50
	}
	hasForm, hasBody := false, false
	for i, p := range op.Params {
		name, in := str(p["name"]), str(p["in"])
		key := in + ":" + name
		pl := fmt.Sprintf("%s_p%d", label, i)
		if in == "formData" {
			hasForm = true
		}
		if o.Omit[key] {
			continue
		}
		forced, isForced := o.Force[key]
		required := truthy(p["required"]) || in == "path"
		if !required && !isForced && !o.AllOptional {
			if rapid.IntRange(1, 100).Draw(t, pl+"_incl") > pct {
				continue
			}
		}
		if in == "body" {
			hasBody = true
			var v any
			if isForced {
				v = forced
			} else {
				s, _ := p["schema"].(J)
				if s == nil {
					s = J{}
				}
				var ok bool
				v, ok = specgen.Valid(t, pl+"_body", doc, s, 0)
				if !ok {
					return nil, false
				}
			}
			b, err := json.Marshal(v)
			if err != nil {
				return nil, false
			}
			r.HasBody = true
			r.Body = string(b)
			continue
		}
		if str(p["type"]) == "file" {
			return nil, false
		}
		var v any
		if isForced {
			v = forced
		} else {
			gp := p
			if in == "path" && str(p["type"]) == "string" && p["minLength"] == nil && p["enum"] == nil && p["pattern"] == nil && str(p["format"]) == "" {
				gp = specgen.CloneJ(p)
				gp["minLength"] = 1
			}
			var ok bool
			for try := 0; try < 6; try++ {
				v, ok = specgen.ValidSimple(t, fmt.Sprintf("%s_v%d", pl, try), gp)
				if !ok {
					return nil, false
				}
				// an empty text cannot be told from absence on the wire: draw again
				if rs, okE := refmodel.Encode(p, v); okE && !hasEmpty(rs) {
					break
				}
			}
		}
		raws, ok := refmodel.Encode(p, v)
		if !ok || (!isForced && hasEmpty(raws)) {
			return nil, false
		}
		r.Typed[key] = normalise(v)
		switch in {
		case "query":
			r.Query[name] = raws
		case "header":
			r.Header[name] = raws
		case "formData":
			r.Form[name] = raws
		case "path":
			if len(raws) != 1 || raws[0] == "" || strings.Contains(raws[0], "/") {
				return nil, false
			}
			r.PathParams[name] = raws[0]
		}
	}
	switch {
	case o.ContentType != "":
		r.ContentType = o.ContentType
	case hasBody && r.HasBody:
		r.ContentType = "application/json"
		if len(op.Consumes) > 0 {
			r.ContentType = rapid.SampledFrom(op.Consumes).Draw(t, label+"_ct")
		}
	case hasForm:
		r.ContentType = "application/x-www-form-urlencoded"
		found := false
		for _, c := range op.Consumes {
			if c == "application/x-www-form-urlencoded" {
				found = true
			}
		}
		if !found {
			for _, c := range op.Consumes {
				if c == "multipart/form-data" {
					r.ContentType = c
				}
			}
		}
	}
	return r, true
}

// normalise converts a typed value to its JSON-decoded form (float64 numbers).
func normalise(v any) any {
	b, err := json.Marshal(v)
	if err != nil {
		return v
	}
	var out any
	if json.Unmarshal(b, &out) != nil {
		return v
	}
	return out
}

func hasEmpty(raws []string) bool {
	for _, r := range raws {
		if r == "" {
			return true
		}
	}
	return false
}
