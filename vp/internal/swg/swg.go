// Package swg wraps the go-openapi loading / validation calls used as oracles.
package swg

import (
	"encoding/json"
	"fmt"
	"io"
	"log"
	"os"
	"path/filepath"
	"sync"

	"github.com/go-openapi/loads"
	"github.com/go-openapi/spec"
	"github.com/go-openapi/strfmt"
	"github.com/go-openapi/validate"

	"verif/internal/specgen"
)

// LoadJSON loads a document the way `loads.Spec` does for a JSON file.
func LoadJSON(b []byte) (*loads.Document, error) {
	return loads.Analyzed(json.RawMessage(b), "")
}

// Swagger decodes and returns the spec structure.
func Swagger(b []byte) (*spec.Swagger, error) {
	d, err := LoadJSON(b)
	if err != nil {
		return nil, err
	}
	return d.Spec(), nil
}

// ValidateSpec runs the reference Swagger 2.0 validation (as `swagger validate`).
func ValidateSpec(b []byte) (err error) {
	// go-openapi/analysis panics on some names (e.g. a property called "a%b")
	defer func() {
		if rc := recover(); rc != nil {
			err = fmt.Errorf("go-openapi panicked while analysing the document: %v", rc)
		}
	}()
	// go-openapi/validate overflows the stack (fatal, not recoverable) on
	// circular allOf ancestry; such documents are invalid anyway.
	if tree, err := specgen.Parse(b); err == nil {
		if n := specgen.AllOfCycle(tree); n != "" {
			return fmt.Errorf("definition %q has circular allOf ancestry", n)
		}
	}
	d, err := LoadJSON(b)
	if err != nil {
		return err
	}
	if err := validate.Spec(d, strfmt.Default); err != nil {
		return err
	}
	return nil
}

var quietOnce sync.Once

// Quiet silences the standard logger (the commands log their configuration).
func Quiet() {
	quietOnce.Do(func() { log.SetOutput(io.Discard) })
}

// WriteTemp writes data into dir/name and returns the path.
func WriteTemp(dir, name string, data []byte) string {
	p := filepath.Join(dir, name)
	if err := os.WriteFile(p, data, 0o644); err != nil {
		panic(err)
	}
	return p
}
