package dbg
import ("testing";"os";"fmt";"encoding/json";"verif/internal/work")
func TestSrv(t *testing.T){
 b,_:=os.ReadFile("/tmp/c04-422.json")
 var in struct{Spec json.RawMessage `json:"spec"`; Wire struct{Method,URL string; Headers map[string][]string; Body string} `json:"wire"`}
 json.Unmarshal(b,&in)
 p:=work.BuildServer(in.Spec,false)
 if !p.Usable(){ t.Fatalf("unusable %s: %s", p.Stage, p.Reason)}
 rs,err:=p.Exec([]work.SrvReq{{Op:"request",Method:in.Wire.Method,URL:in.Wire.URL,Headers:in.Wire.Headers,Body:in.Wire.Body}})
 if err!=nil{t.Fatal(err)}
 for _,r:=range rs{ b,_:=json.Marshal(r); fmt.Println(string(b)) }
}
