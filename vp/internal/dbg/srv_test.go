package dbg
import ("testing";"os";"fmt";"encoding/json";"verif/internal/work")
func TestSrv(t *testing.T){
 b,_:=os.ReadFile("/tmp/srvprobe/swagger.json")
 p:=work.BuildServer(b,true)
 if !p.Usable(){ t.Fatalf("unusable %s: %s", p.Stage, p.Reason)}
 reqs:=[]work.SrvReq{{Op:"info"},
  {Op:"request",Method:"get",URL:"/v1/p/7?lim=a,b",Headers:map[string][]string{"X-Key":{"good1"}},Plan:&work.Plan{Status:200,Body:json.RawMessage(`"hi"`)}},
  {Op:"request",Method:"get",URL:"/v1/p/x?lim=a,b",Headers:map[string][]string{"X-Key":{"good1"}}},
  {Op:"request",Method:"get",URL:"/v1/p/7",Headers:map[string][]string{"X-Key":{"bad"}}},
  {Op:"call",Key:"GET /p/{id}",Params:map[string]json.RawMessage{"id":json.RawMessage("7"),"lim":json.RawMessage(`["a","b"]`)},Auth:map[string]string{"header:X-Key":"good2"},Plan:&work.Plan{Status:200,Body:json.RawMessage(`"hi"`),Headers:map[string][]string{"X-Rate":{"5"}}}},
  {Op:"call",Key:"GET /p/{id}",Params:map[string]json.RawMessage{"id":json.RawMessage("7")},Auth:map[string]string{"header:X-Key":"good2"},Plan:&work.Plan{Status:404}},
  {Op:"call",Key:"GET /p/{id}",Params:map[string]json.RawMessage{"id":json.RawMessage("7")},Auth:map[string]string{"header:X-Key":"good2"},Plan:&work.Plan{Status:418}},
  {Op:"call",Key:"POST /q",Params:map[string]json.RawMessage{"body":json.RawMessage(`{"a":"x"}`)},Plan:&work.Plan{Status:500,Body:json.RawMessage(`"boom"`)}},
 }
 rs,err:=p.Exec(reqs)
 if err!=nil{t.Fatal(err)}
 for i,r:=range rs{ if i==0 { delete(r.Info,"swagger_json"); delete(r.Info,"flat_swagger_json") }; b,_:=json.Marshal(r); fmt.Println(i,string(b)) }
}
