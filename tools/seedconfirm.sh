#!/bin/bash
# usage: seedconfirm.sh <worktree> <Cxx> <pkg> <demo-file> <dest-dir> <run-regexp>
# full confirmation of a seeded change: applies, builds, package tests pass with it, demo fails with / passes without it.
set -u
export GOFLAGS=-mod=mod GOPROXY=off GOSUMDB=off GOTOOLCHAIN=local
W=${1:?}; ID=${2:?}; PK=${3:?}; DEMO=${4:?}; DEST=${5:?}; RUN=${6:?}
/verif/tools/seedverify.sh "$W" "$ID" "$PK/..." 2>&1 | tail -8
cd "$W" || exit 2
cp "_seed/$DEMO" "$DEST/"
echo "--- demo WITH change"; go test -vet=off -count=1 -run "$RUN" "./$DEST/" 2>&1 | tail -3
git apply -R _seed/patch.diff
echo "--- demo WITHOUT change"; go test -vet=off -count=1 -run "$RUN" "./$DEST/" 2>&1 | tail -3
rm -f "${W:?}/${DEST:?}/${DEMO:?}"
git apply _seed/patch.diff; git checkout -- go.mod go.sum; git status --short | head -5
