#!/bin/bash
# usage: seedverify.sh <worktree> <Cxx> <pkgs...>  -- confirm a seeded change in its scratch worktree:
# patch applies on the pinned commit, tree builds, demo fails with / passes without, touched packages' tests pass with it.
set -u
export GOFLAGS=-mod=mod GOPROXY=off GOSUMDB=off GOTOOLCHAIN=local
W=$1; ID=$2; shift 2; PKGS="$@"
cd $W || exit 2
git checkout -- . ; git clean -fdq -e _seed
python3 - <<'P' > /tmp/.sv_$ID
import json;m=json.load(open('_seed/meta.json'));print(m.get('demo_cmd',''));print(m.get('demo_placement',''))
P
echo "demo_cmd: $(sed -n 1p /tmp/.sv_$ID)"; echo "placement: $(sed -n 2p /tmp/.sv_$ID)"
git apply --check _seed/patch.diff || { echo "PATCH DOES NOT APPLY"; exit 1; }
git apply _seed/patch.diff
go build ./... || { echo "BUILD FAILS"; exit 1; }
echo "--- package tests with the change"
go test -vet=off -count=1 $PKGS 2>&1 | grep -E "^(ok|FAIL|---)" | head -20
git checkout -- go.mod go.sum
