#!/usr/bin/env python3
"""namescan.py: for every hard name of the pool, plant it in one kind of position at a time (triage helper for C01).
Writes tools/namescan-result.json: {kind: {name: "ok" | "<stage>: <first error>"}}"""
import json,sys,os,shutil,subprocess,re,urllib.parse,concurrent.futures as cf
SW='/tmp/c01/swagger'
KINDS=['definition','property','query','header','path','opid','tag','enum','resphdr','security','formdata','subtype','basetype','discriminator']
pool_src=open('/verif/vp/internal/specgen/names.go').read()
body=pool_src[pool_src.index('var NastyPool = []string{'):]
body=body[:body.index('\n}\n')]
names=[]
for m in re.finditer(r'"((?:[^"\\]|\\.)*)"|`([^`]*)`',body):
    s=m.group(1)
    if s is not None: s=json.loads('"'+s+'"')
    else: s=m.group(2)
    if s not in names and any(ch.isalpha() for ch in s): names.append(s)
TOKEN=re.compile(r"^[!#$%&'*+\-.^_`|~0-9A-Za-z]+$")
def jptr(s): return urllib.parse.quote(s.replace('~','~0').replace('/','~1'),safe="!$&'()*+,;=:@~-._")
def spec(kind,n):
    g=lambda k,plain: n if kind==k else plain
    defn=g('definition','Ctldef'); ref='#/definitions/'+jptr(defn)
    pp=g('path','ctlpp')
    defs={ 'Holder':{'type':'object','properties':{'ref':{'$ref':ref},'list':{'type':'array','items':{'$ref':ref}},'m':{'type':'object','additionalProperties':{'$ref':ref}},
                     g('property','ctlprop'):{'type':'string'}, 'e':{'type':'string','enum':[g('enum','ctlenum'),'other']}}},
           defn:{'type':'object','properties':{'id':{'type':'string'}}}}
    base=g('basetype','Ctlbase'); sub=g('subtype','Ctlsub'); disc=g('discriminator','ctldisc')
    defs[base]={'type':'object','discriminator':disc,'required':[disc],'properties':{disc:{'type':'string'},'bp':{'type':'string'}}}
    defs[sub]={'allOf':[{'$ref':'#/definitions/'+jptr(base)},{'type':'object','properties':{'sp':{'type':'integer'}}}]}
    defs['Holder']['properties']['poly']={'$ref':'#/definitions/'+jptr(base)}
    op={'operationId':g('opid','ctlOp'),'tags':[g('tag','ctltag')],
        'parameters':[{'name':pp,'in':'path','required':True,'type':'string'},{'name':g('query','ctlq'),'in':'query','type':'string'},
                      {'name':'X-'+g('header','Ctlh'),'in':'header','type':'integer'}],
        'responses':{'200':{'description':'ok','schema':{'$ref':'#/definitions/Holder'},'headers':{'X-'+g('resphdr','Ctlrh'):{'type':'string'}}}}}
    op2={'operationId':'ctlPost','consumes':['application/x-www-form-urlencoded'],'parameters':[{'name':g('formdata','ctlf'),'in':'formData','type':'string'}],'responses':{'204':{'description':'none'}}}
    sec=g('security','ctlsec')
    return {'swagger':'2.0','info':{'title':'scan','version':'1'},'consumes':['application/json'],'produces':['application/json'],
            'securityDefinitions':{sec:{'type':'apiKey','in':'header','name':'X-Key'}},'security':[{sec:[]}],
            'paths':{'/things/{'+pp+'}':{'get':op},'/form':{'post':op2}},'definitions':defs}
reqs=re.findall(r'(?s)require \((.*?)\)',open('/repo/go.mod').read())
GOMOD='module verifgen\n\ngo 1.21\n\nrequire (\n'+'\n'.join(reqs)+'\n)\n'
env=dict(os.environ,GOFLAGS='-mod=mod',GOPROXY='off',GOSUMDB='off',GOTOOLCHAIN='local')
def run(job):
    i,kind,n,targets=job
    mod=f'/tmp/c01/scan/{i}/verifgen'
    shutil.rmtree(f'/tmp/c01/scan/{i}',ignore_errors=True); os.makedirs(mod)
    try:
        open(mod+'/go.mod','w').write(GOMOD); shutil.copy('/repo/go.sum',mod+'/go.sum')
        json.dump(spec(kind,n),open(mod+'/swagger.json','w'),ensure_ascii=False)
        for tgt in targets:
            r=subprocess.run([SW,'generate',tgt,'-q','-A','verif','-f',mod+'/swagger.json','-t',mod]+(['--exclude-main'] if tgt=='server' else []),cwd=mod,env=env,capture_output=True,text=True,timeout=300)
            if r.returncode!=0:
                out=(r.stdout+r.stderr).strip()
                if 'invalid' in out and 'validation' in out.lower(): return (kind,n,'invalid-spec: '+out.split('\n')[-1][:200])
                l=[x for x in out.split('\n') if x.startswith('panic:') or 'fatal error' in x] or out.split('\n')[-1:]
                return (kind,n,f'generate-{tgt}: '+l[0][:300])
        r=subprocess.run(['go','build','./...'],cwd=mod,env=env,capture_output=True,text=True,timeout=900)
        if r.returncode!=0:
            errs=[x for x in (r.stdout+r.stderr).split('\n') if '.go:' in x]
            return (kind,n,'build: '+(errs[0] if errs else r.stderr[:300])[:300])
        return (kind,n,'ok')
    finally:
        shutil.rmtree(f'/tmp/c01/scan/{i}',ignore_errors=True)
def ok_for(kind,n):
    if kind in('header','resphdr'): return bool(TOKEN.match(n))
    if kind=='path': return not re.search(r'[/{}?#%]',n)
    return True
targets=sys.argv[1].split(',') if len(sys.argv)>1 else ['server','client']
kinds=sys.argv[2].split(',') if len(sys.argv)>2 else KINDS
jobs=[]
for k in kinds:
    for n in names:
        if ok_for(k,n): jobs.append((len(jobs),k,n,targets))
print(len(names),'names',len(jobs),'jobs',file=sys.stderr)
res={}
with cf.ThreadPoolExecutor(16) as ex:
    for k,n,v in ex.map(run,jobs):
        res.setdefault(k,{})[n]=v
        if v!='ok': print(k,repr(n),v,flush=True)
out='/verif/tools/namescan-result-'+'-'.join(targets)+'.json'
json.dump(res,open(out,'w'),indent=1,ensure_ascii=False)
