#!/usr/bin/env python3
"""attribute C01 failures to generator features from a VERIF_C01_LOG file"""
import json,sys,collections
rows=[json.loads(l) for l in open(sys.argv[1])]
rows=[r for r in rows if r['sig']!='discard']
feats=sorted({f for r in rows for f in (r['features'] or [])})
dims={}
for r in rows:
    r['F']=set(r['features'] or [])|{'target:'+r['target'],'flatten:'+r['flatten']}|{'opt:'+o.split('=')[0] for o in (r['opts'] or [])}
allf=sorted({f for r in rows for f in r['F']})
print('cases',len(rows),'fail',sum(r['sig']!='ok' for r in rows))
print('%-40s %5s %5s %5s'%('feature','n','fail%','fail%-without'))
for f in allf:
    w=[r for r in rows if f in r['F']]; wo=[r for r in rows if f not in r['F']]
    fr=lambda x: 100*sum(r['sig']!='ok' for r in x)/max(1,len(x))
    print('%-40s %5d %5.0f %5.0f'%(f,len(w),fr(w),fr(wo)))
print()
bysig=collections.defaultdict(list)
for r in rows:
    if r['sig']!='ok': bysig[r['sig']].append(r)
for sig,rs in sorted(bysig.items(),key=lambda x:-len(x[1])):
    common=set.intersection(*[r['F'] for r in rs])
    # features whose presence is not explained by chance: common to all
    print(len(rs),sig); print('      common:',sorted(common))
