#!/usr/bin/env python3
"""tools/c01frontier.py: builds one minimal reproduction per region that the C01 generator avoids by construction,
replays it through the check to obtain its signature, and writes corpus/C01/known-*.json plus known_findings.json entries."""
import json,os,re,subprocess,sys,urllib.parse,hashlib
V=os.path.dirname(os.path.dirname(os.path.abspath(__file__)))
sys.path.insert(0,os.path.join(V,'tools'))
def jptr(s): return urllib.parse.quote(s.replace('~','~0').replace('/','~1'),safe="!$&'()*+,;=:@~-._")
TOKEN=None
def spec(kind,n):
    g=lambda k,plain: n if kind==k else plain
    defn=g('definition','Ctldef'); ref='#/definitions/'+jptr(defn)
    pp=g('path','ctlpp')
    defs={ 'Holder':{'type':'object','properties':{'ref':{'$ref':ref},'list':{'type':'array','items':{'$ref':ref}},'m':{'type':'object','additionalProperties':{'$ref':ref}},
                     g('property','ctlprop'):{'type':'string'}, 'e':{'type':'string','enum':[g('enum','ctlenum'),'other']}}},
           defn:{'type':'object','properties':{'id':{'type':'string'}}}}
    base=g('basetype','Ctlbase'); sub=g('subtype','Ctlsub'); disc=g('discriminator','ctldisc')
    defs[base]={'type':'object','discriminator':disc,'required':[disc],'properties':{disc:{'type':'string'},'bp':{'type':'string'}}}
    defs[sub]={'allOf':[{'$ref':'#/definitions/'+jptr(base)},{'type':'object','properties':{'sp':{'type':'integer'}}}]}
    defs['Holder']['properties']['poly']={'$ref':'#/definitions/'+jptr(base)}
    op={'operationId':g('opid','ctlOp'),'tags':[g('tag','ctltag')],
        'parameters':[{'name':pp,'in':'path','required':True,'type':'string'},{'name':g('query','ctlq'),'in':'query','type':'string'},
                      {'name':'X-'+g('header','Ctlh'),'in':'header','type':'integer'}],
        'responses':{'200':{'description':'ok','schema':{'$ref':'#/definitions/Holder'},'headers':{'X-'+g('resphdr','Ctlrh'):{'type':'string'}}}}}
    op2={'operationId':'ctlPost','consumes':['application/x-www-form-urlencoded'],'parameters':[{'name':g('formdata','ctlf'),'in':'formData','type':'string'}],'responses':{'204':{'description':'none'}}}
    sec=g('security','ctlsec')
    return {'swagger':'2.0','info':{'title':'scan','version':'1'},'consumes':['application/json'],'produces':['application/json'],
            'securityDefinitions':{sec:{'type':'apiKey','in':'header','name':'X-Key'}},'security':[{sec:[]}],
            'paths':{'/things/{'+pp+'}':{'get':op},'/form':{'post':op2}},'definitions':defs}

def base(defs=None,paths=None,**kw):
    d={'swagger':'2.0','info':{'title':'frontier','version':'1'},'consumes':['application/json'],'produces':['application/json'],
       'paths':paths or {'/ctl':{'get':{'operationId':'ctlGet','responses':{'200':{'description':'ok'}}}}},'definitions':defs or {}}
    d.update(kw); return d
def ref(n): return {'$ref':'#/definitions/'+jptr(n)}
def holder(n): return {'type':'object','properties':{'ref':ref(n),'list':{'type':'array','items':ref(n)}}}
def opWith(params=None,resp=None,opid='ctlOp',tags=None,method='get',path='/things',consumes=None):
    op={'operationId':opid,'responses':{'200':resp or {'description':'ok'}}}
    if params: op['parameters']=params
    if tags: op['tags']=tags
    if consumes: op['consumes']=consumes
    return {path:{method:op}}
obj={'type':'object','properties':{'id':{'type':'string'}}}
def polyd(basen='Ctlbase',subn='Ctlsub',disc='kind',holderprop='one'):
    return {basen:{'type':'object','discriminator':disc,'required':[disc],'properties':{disc:{'type':'string'},'bp':{'type':'string'}}},
            subn:{'allOf':[ref(basen),{'type':'object','properties':{'sp':{'type':'integer'}}}]},
            'Holder':{'type':'object','properties':{holderprop:{'type':'array','items':ref(basen)}}}}
C=[] # (slug, what, spec, target, flatten, opts)
def add(slug,what,spec,target='server',flatten='minimal',opts=None): C.append((slug,what,spec,target,flatten,opts or []))
add('slash-in-definition-name',"'/' or '~' in a definition name: references are rendered with a type name derived from the escaped pointer (A1b / A0b), which does not exist",base({'a/b':obj,'Holder':holder('a/b')}),'model')
add('definition-named-like-model-method',"a definition named like a method of generated models (validate, marshalBinary...) that has additionalProperties: its map field takes the type's name and collides with the method",base({'validate':{'type':'object','properties':{'x':{'type':'string'}},'additionalProperties':{'type':'string'}}}),'model')
add('definition-leading-digit-enum',"a definition whose name starts with a digit and carries an enum: the enum variable is named with the leading digit",base({'3D':{'type':'integer','enum':[1,2]}}),'model')
add('definition-caseless-initial',"a definition whose first letter has no upper case (ß, 名): the type is unexported and the operations package cannot use it",base({'ß':obj},opWith([{'name':'body','in':'body','schema':ref('ß')}],method='post')))
add('subtype-name-needs-escaping',"a subtype of a discriminated base whose name needs escaping in a JSON pointer (space, non-ASCII, punctuation) is not recognised as subtype: its UnmarshalJSON does not compile",base(polyd(subn='a b')),'model')
add('base-type-name-keyword',"a discriminated base type named like a Go keyword, predeclared identifier or imported package: the generated unmarshaller uses the lower-cased name as a variable",base(polyd(basen='break')),'model')
add('polymorphic-holder-property-keyword',"a property holding a discriminated base type (or an array of it) named like a Go keyword / predeclared identifier: UnmarshalJSON of the holder declares a variable of that name",base(polyd(holderprop='default')),'model')
add('backquote-in-property-name',"a back-quote in a property name ends the struct tag literal",spec('property','a`b'),'server')
add('property-named-validate',"a property named like a generated model method (Validate, ContextValidate, MarshalBinary, UnmarshalBinary, MarshalJSON, UnmarshalJSON): field and method with the same name",base({'Thing':{'type':'object','properties':{'Validate':{'type':'string'}}}}),'model')
add('discriminator-leading-digit',"a discriminator property whose name starts with a digit: the getter of the generated interface is named with the leading digit",base(polyd(disc='1st')),'model')
add('non-ascii-query-parameter',"a query / path / formData parameter with a non-ASCII name: the URL builder / client parameters are written with invalid UTF-8",base({},opWith([{'name':'é','in':'query','type':'string'}])))
add('parameter-named-o',"a parameter named like the receiver, a local or an import of the parameter / URL-builder templates (o, string, context, httpClient, swag, err...)",spec('query','o'),'client')
add('parameter-named-with-timeout',"a parameter named like a method of the generated client parameters (WithTimeout, SetContext, WithHTTPClient, WithDefaults, WriteToRequest...)",base({},opWith([{'name':'WithTimeout','in':'query','type':'string'}])),'client')
add('path-parameter-named-url',"a path parameter named like an import or predeclared identifier used by the URL builder (url, nil, make, errors, append)",spec('path','url'),'server')
add('parameter-leading-digit',"an array parameter whose name has a digit before its first letter ('+1 x', '3D size') with a length validation: the size variable starts with the digit",base({},opWith([{'name':'+1 ContextValidate','in':'formData','type':'array','items':{'type':'string'},'maxItems':5}],method='post',consumes=['application/x-www-form-urlencoded'])))
add('file-parameter-keyword',"a file parameter named like a Go keyword ('for'): used as local variable in BindRequest",base({},opWith([{'name':'for','in':'formData','type':'file'}],method='post',consumes=['multipart/form-data'])))
add('quote-in-operation-id',"a double quote in an operation id, security scheme or path parameter name is copied unescaped into a string literal",base({},opWith(opid='a"b')),'client')
add('caseless-initial-operation-id',"an operation id or security scheme whose first letter has no upper case (ß, 名): generated identifiers are unexported",base({},opWith(opid='ß',tags=['ctltag'])))
add('tag-main',"a tag that is not usable as package name (main, init, predeclared identifiers, names of imported packages such as http / swag / runtime / api / models, non-ASCII)",base({},opWith(tags=['main'])),'client')
add('backquote-in-enum-value',"a back-quote in an enum value or response header name ends the raw string literal it is rendered in",base({'Thing':{'type':'object','properties':{'e':{'type':'string','enum':['a`b','other']}}}}),'model')
add('cli-array-default',"generate cli: an array parameter with a default is initialised from a []interface{} literal",base({},opWith([{'name':'ids','in':'query','type':'array','items':{'type':'integer'},'default':[1,2]}])),'cli')
add('cli-map-definition',"generate cli: no flag helpers are generated for definitions and inline schemas that are maps or nested anonymous objects (registerModel...Flags undefined)",base({'M':{'type':'object','additionalProperties':{'type':'string'}},'H':{'type':'object','properties':{'m':ref('M'),'n':{'type':'object','properties':{'x':{'type':'object','properties':{'y':{'type':'string'}}}}}}}},opWith([{'name':'body','in':'body','schema':ref('H')}],method='post')),'cli')
add('cli-non-ascii-property',"generate cli: a property whose name starts with a caseless letter is addressed as unexported field",base({'H':{'type':'object','properties':{'名':{'type':'string'}}}},opWith([{'name':'body','in':'body','schema':ref('H')}],method='post')),'cli')
add('cli-tag-json',"generate cli: a tag named like a package imported by the cli files (json, fmt, swag...)",base({},opWith(tags=['json'],resp={'description':'ok','schema':{'type':'object','properties':{'a':{'type':'string'}}}})),'cli')
add('expand-recursive-definition',"--with-expand on a definition that refers to itself: the type resolver recurses until the stack overflows",base({'Node':{'type':'object','properties':{'next':ref('Node'),'v':{'type':'string'}}}},opWith(resp={'description':'ok','schema':ref('Node')})),'server','expand')
add('recursive-container-definition',"a definition that contains itself other than through a property (map of itself): stack overflow in the type resolver",base({'Tree':{'type':'object','additionalProperties':ref('Tree')}}),'model')
add('alias-of-free-form-map',"a definition that is a bare $ref to a free-form map definition, used as required property: the holder calls a Validate method the alias does not have",base({'Free':{'type':'object','additionalProperties':True},'Alias':ref('Free'),'H':{'type':'object','required':['a'],'properties':{'a':ref('Alias')}}}),'model')
add('alias-of-escaped-name',"a definition that is a bare $ref to a definition whose name needs escaping: the alias is declared with the escaped text as type name",base({'uint8 été':{'type':'string','format':'uuid'},'Alias':ref('uint8 été')}),'model')
add('enum-two-containers-deep',"an enum on a schema two container levels deep (array of arrays, map of arrays): the validator calls a validate...Enum method that is not generated",base({'Pet':{'type':'object','properties':{'darwin':{'type':'array','items':{'type':'array','items':{'type':'number','enum':[1,2]}}}}}}),'model')
add('validation-three-levels-through-map',"validations three container levels deep behind a map of an object with properties: the generated code indexes the receiver instead of its map field",base({'Code':{'type':'object','properties':{'p':{'type':'string'}},'additionalProperties':{'type':'array','items':{'type':'object','additionalProperties':{'type':'string','format':'ipv6'}}}}}),'model')
add('x-nullable-map-value',"x-nullable on a map-typed map value: the generated validation ranges over a pointer to a map",base({'Rpc':{'type':'object','properties':{'go':{'type':'object','additionalProperties':{'type':'object','x-nullable':True,'additionalProperties':{'type':'string','format':'uri'}}}}}}),'model')
add('tuple-in-map-expand',"--with-expand and a tuple (items as list) as map value: the value type is rendered empty",base({'B':{'type':'object','properties':{'w':{'type':'object','additionalProperties':{'type':'array','items':[{'type':'boolean'},{'type':'string'}]}}}}}),'model','expand')
add('x-go-name-on-object-property',"x-go-name on a property whose schema is an inline object: the validation refers to a field that does not exist",base({'D':{'type':'object','properties':{'inner':{'type':'object','x-go-name':'CustomName7','properties':{'a':{'type':'string','minLength':1}},'required':['a']}},'required':['inner']}}),'model')
add('x-go-name-on-parameter',"x-go-name on a non-body parameter: the server parameter binder refers to the un-renamed field",base({},opWith([{'name':'limit','in':'query','type':'integer','x-go-name':'CustomParam1','minimum':1}])))
add('client-array-of-base-type-response',"generate client: a response that is an array of a discriminated base type renders an expression without operand",base(polyd(),opWith(resp={'description':'ok','schema':{'type':'array','items':ref('Ctlbase')}})),'client')
add('flag-strategy-flag',"generate server --flag-strategy=flag: server.go calls flag.StringVarP, which the standard flag package does not have",base({}),'server','minimal',['--flag-strategy=flag'])
add('ulid-body',"a body parameter of type string, format ulid: the binder calls Validate on strfmt.ULID, which has none",base({},opWith([{'name':'body','in':'body','schema':{'type':'string','format':'ulid'}}],method='put')))
add('formatted-string-definition-as-array-item',"a definition that is a formatted string used as array item of an inline body: the validation calls String() on the named type",base({'acl':{'type':'string','format':'mac'}},opWith([{'name':'body','in':'body','schema':{'type':'object','properties':{'f':{'type':'array','items':ref('acl')}}}}],method='patch')),'client')
add('map-values-ref-to-map',"map values that are a $ref to a map definition next to read-only properties: ContextValidate ranges over the map with an unused key",base({'rw':{'type':'object','additionalProperties':{'type':'object','additionalProperties':True}},'F':{'type':'object','properties':{'c':{'type':'boolean','readOnly':True}},'additionalProperties':ref('rw')}}),'model')
add('body-array-of-free-form-objects',"a body parameter that is an array of free-form objects with maxItems: the validation declares an unused index variable",base({},opWith([{'name':'body','in':'body','schema':{'type':'array','maxItems':5,'items':{'type':'object','additionalProperties':True}}}],method='post')))
add('non-basic-format-in-parameter',"non-body parameters with formats beyond the basic ones (arrays of mac / ulid ... items, formatted response headers): conversions between string and the strfmt type are missing",base({},opWith([{'name':'macs','in':'query','type':'array','items':{'type':'string','format':'mac'},'default':['01:02:03:04:05:ab']}])),'client')
add('property-named-as-definition',"an object with properties and additionalProperties names its map field after the type: a property with the same Go name collides",base({'delta':{'type':'object','properties':{'delta':{'type':'integer'}},'additionalProperties':{'type':'integer','format':'int32'}}}),'model')
add('allof-inline-duplicate',"allOf in inline positions (responses, nested members): duplicate fields and unused variables in the generated code",base({'X':{'type':'object','properties':{'alpha':{'type':'string'}}}},opWith(resp={'description':'ok','schema':{'allOf':[ref('X'),{'type':'object','properties':{'alpha':{'type':'integer'}}}]}})),'client')

known=json.load(open(os.path.join(V,'known_findings.json')))
listed={f['signature'] for f in known['findings'] if f['property']=='C01'}
os.makedirs(os.path.join(V,'corpus','C01'),exist_ok=True)
only=sys.argv[1:] 
for slug,what,spec,target,flatten,opts in C:
    if only and slug not in only: continue
    case={'spec':spec,'target':target,'flatten':flatten,'opts':opts,'names':[],'features':['frontier:'+slug]}
    tmp=f'/tmp/c01/frontier/{slug}.json'
    json.dump({'property':'C01','expect':'pass','note':what,'case':case,'violations':[]},open(tmp,'w'),indent=1,ensure_ascii=False)
    r=subprocess.run([os.path.join(V,'vcheck'),'replay',tmp],capture_output=True,text=True)
    m=re.search(r'REPLAY-VIOLATION sig=(.*)',r.stdout+r.stderr)
    if not m:
        print('NO VIOLATION',slug,(r.stdout+r.stderr)[-300:].replace('\n',' | ')); continue
    sig=m.group(1).strip()
    print(slug,'->',sig)
    rel=f'corpus/C01/known-{slug}.json'
    json.dump({'property':'C01','expect':'known:'+sig,'note':what,'case':case,'violations':[]},open(os.path.join(V,rel),'w'),indent=1,ensure_ascii=False)
    if sig not in listed:
        known['findings'].append({'property':'C01','signature':sig,'status':'known','scope':'corpus','what':what+' [excluded from the random search by construction; replayed from the corpus]','corpus':rel})
        listed.add(sig)
json.dump(known,open(os.path.join(V,'known_findings.json'),'w'),indent=1,ensure_ascii=False)
