#!/usr/bin/env python3
"""tools/adopt.py <PID> [what-prefix] : turn the triage replays (replays/<PID>/collect-*.json) whose signature is not yet
listed into corpus files + known_findings.json entries (status known). Edit the 'what' texts afterwards."""
import json,glob,os,re,sys,hashlib
V=os.path.dirname(os.path.dirname(os.path.abspath(__file__)))
pid=sys.argv[1]
kf=json.load(open(os.path.join(V,'known_findings.json')))
listed={f['signature'] for f in kf['findings'] if f['property']==pid}
os.makedirs(os.path.join(V,'corpus',pid),exist_ok=True)
n=0
for f in sorted(glob.glob(os.path.join(V,'replays',pid,'collect-*.json'))):
    d=json.load(open(f))
    v=d['violations'][0]; sig=v['sig']
    if sig in listed: continue
    slug=re.sub(r'[^a-z0-9]+','-',sig.split('|',1)[1].lower()).strip('-')[:70]+'-'+hashlib.sha1(sig.encode()).hexdigest()[:6]
    rel=f'corpus/{pid}/known-{slug}.json'
    d['expect']='known:'+sig
    d['note']=v['msg'].split('\n')[0][:300]
    d['violations']=[]
    json.dump(d,open(os.path.join(V,rel),'w'),indent=1,ensure_ascii=False)
    kf['findings'].append({"property":pid,"signature":sig,"status":"known","what":v['msg'].split('\n')[0][:400],"corpus":rel})
    listed.add(sig); n+=1
    print('adopted',sig)
json.dump(kf,open(os.path.join(V,'known_findings.json'),'w'),indent=1,ensure_ascii=False)
print(n,'adopted')
