#!/usr/bin/env python3
"""tools/sweep.py <PID> <tier> <seed> [<seed>...] : run the check in triage (collect) mode at several seeds and
list the violation signatures that are NOT in known_findings.json (should be none on the unchanged tree)."""
import json, os, subprocess, sys, re
V = os.path.dirname(os.path.dirname(os.path.abspath(__file__)))
pid, tier, seeds = sys.argv[1], sys.argv[2], sys.argv[3:]
known = {f["signature"] for f in json.load(open(os.path.join(V, "known_findings.json")))["findings"] if f["property"] == pid and f["status"] == "known"}
unl = {}
for s in seeds:
    env = dict(os.environ, VERIF_SEED=s, VERIF_COLLECT="1")
    r = subprocess.run([os.path.join(V, "vcheck"), "run", pid, "--tier", tier], env=env, capture_output=True, text=True)
    for l in r.stdout.splitlines():
        m = re.match(r"COLLECT\s+(\d+) (.*)", l)
        if m and m.group(2) not in known:
            unl.setdefault(m.group(2), []).append((s, int(m.group(1))))
        if l.startswith("[vcheck]") or l.startswith("INCONCL"):
            print(f"seed {s}: {l}")
print("UNLISTED:", len(unl))
for k, v in sorted(unl.items()):
    print("  ", k, v)
