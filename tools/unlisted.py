#!/usr/bin/env python3
"""tools/unlisted.py <file with COLLECT lines>... : signatures counted in triage output that known_findings.json does not list"""
import json,re,sys,os
V=os.path.dirname(os.path.dirname(os.path.abspath(__file__)))
known={(f['property'],f['signature']):f for f in json.load(open(os.path.join(V,'known_findings.json')))['findings'] if f['status']=='known'}
for p in sys.argv[1:]:
    for l in open(p):
        m=re.match(r'COLLECT\s+(\d+) ((C\d\d)\|.*)',l.rstrip('\n'))
        if not m: continue
        sig=m.group(2); pid=m.group(3)
        f=known.get((pid,sig))
        if f is None or f.get('scope')=='corpus':
            print(os.path.basename(p), m.group(1), sig[:230], '(corpus-scoped)' if f else '')
