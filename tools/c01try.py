#!/usr/bin/env python3
"""c01try.py <case.json|spec.json> [target] [flags...] : generate + build in /tmp/c01/mod, print errors (triage helper)."""
import json,sys,os,shutil,subprocess,re
src=sys.argv[1]
d=json.load(open(src))
if 'case' in d: d=d['case']
if 'spec' in d:
    spec=d['spec']; target=d.get('target','server'); flags=list(d.get('opts') or [])
    fl=d.get('flatten')
    if fl=='full': flags.append('--with-flatten=full')
    if fl=='expand': flags.append('--with-expand')
else:
    spec=d; target='server'; flags=[]
if len(sys.argv)>2: target=sys.argv[2]; flags=sys.argv[3:]
mod='/tmp/c01/mod/verifgen'
shutil.rmtree('/tmp/c01/mod',ignore_errors=True); os.makedirs(mod+'/auth')
reqs=re.findall(r'(?s)require \((.*?)\)',open('/repo/go.mod').read())
open(mod+'/go.mod','w').write('module verifgen\n\ngo 1.21\n\nrequire (\n'+'\n'.join(reqs)+'\n)\n')
shutil.copy('/repo/go.sum',mod+'/go.sum')
open(mod+'/auth/auth.go','w').write('package auth\ntype Principal struct{ Name string }\ntype PrincipalIface interface{ GetName() string }\n')
json.dump(spec,open(mod+'/swagger.json','w'),indent=1,ensure_ascii=False)
env=dict(os.environ,GOFLAGS='-mod=mod',GOPROXY='off',GOSUMDB='off',GOTOOLCHAIN='local')
args=['/tmp/c01/swagger','generate',target,'-q','-f',mod+'/swagger.json','-t',mod]+([] if target=='model' else ['-A','verif'])+flags
r=subprocess.run(args,cwd=mod,env=env,capture_output=True,text=True)
print('GEN',r.returncode,' '.join(args[1:3]+flags))
if r.returncode!=0:
    out=(r.stdout+r.stderr)
    print(out[-2500:] if 'panic' not in out else out[:3000]); sys.exit(1)
r=subprocess.run(['go','build','./...'],cwd=mod,env=env,capture_output=True,text=True)
print('BUILD',r.returncode); print((r.stdout+r.stderr)[:3000])
